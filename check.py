#!/venv/bin/python
"""CLI: check.py <ID> [--tier quick|thorough] [--replay FILE]

Exit 0 = property held on everything explored (KNOWN-FINDING lines allowed),
exit 1 = `VIOLATION property=<id> replay=<path>` printed, exit 2 = harness error / inconclusive.
"""
import argparse
import importlib
import os
import sys

HERE = os.path.dirname(os.path.abspath(__file__))


def main() -> int:
    ap = argparse.ArgumentParser()
    ap.add_argument("prop")
    ap.add_argument("--tier", default=os.environ.get("VERIF_TIER", "quick"), choices=["quick", "thorough"])
    ap.add_argument("--replay")
    ap.add_argument("--shards", type=int)
    args = ap.parse_args()

    # deterministic hashing for every process of the run
    if os.environ.get("PYTHONHASHSEED") != "0":
        os.environ["PYTHONHASHSEED"] = "0"
        os.execv(sys.executable, [sys.executable, *sys.argv])

    sys.path.insert(0, HERE)
    os.environ["AWS_DURABLE_EXECUTION_SDK_PYTHON_VERIF"] = "1"
    try:
        seed = int(os.environ.get("VERIF_SEED", "1"))
    except ValueError:
        seed = 1
    import logging

    logging.disable(logging.CRITICAL)
    from vf import runner

    prop = args.prop.upper()
    try:
        mod = importlib.import_module(f"vf.props.{prop.lower()}")
    except Exception:  # noqa: BLE001
        import traceback

        sys.stdout.write(f"HARNESS-ERROR property={prop}\n{traceback.format_exc()}\n")
        return 2
    if args.replay:
        return runner.run_replay(mod, args.replay)
    return runner.run_check(mod, args.tier, seed, nshards=args.shards, minimise=getattr(mod, "minimise", None))


if __name__ == "__main__":
    try:
        rc = main()
    except SystemExit:
        raise
    except BaseException:  # noqa: BLE001
        import traceback

        sys.stdout.write("HARNESS-ERROR\n" + traceback.format_exc() + "\n")
        rc = 2
    sys.stdout.flush()
    sys.exit(rc)
