#!/bin/sh
# Offline setup: make sure hypothesis is importable in /venv; try to provide atheris in /verif/.deps (optional).
set -u
WH=/opt/veriftools/wheels
/venv/bin/python -c "import hypothesis" 2>/dev/null || /venv/bin/pip install --no-index --find-links "$WH" hypothesis || exit 1
/venv/bin/python -c "import aws_durable_execution_sdk_python" 2>/dev/null || /venv/bin/pip install --no-index --no-deps -e /repo || true
mkdir -p /verif/.deps
if ! PYTHONPATH=/verif/.deps /venv/bin/python -c "import atheris" 2>/dev/null; then
  /venv/bin/pip install --no-index --find-links "$WH" --target /verif/.deps atheris >/dev/null 2>&1 || echo "setup: atheris not installable for /venv's interpreter (coverage-guided stage will be skipped)"
fi
/venv/bin/python -c "import hypothesis; print('setup ok: hypothesis', hypothesis.__version__)"
