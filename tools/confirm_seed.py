#!/usr/bin/env python3
"""Confirm a sub-agent's seeded change in its scratch worktree and copy it to /verif/seeded/<id>/.
usage: confirm_seed.py <worktree> <X> <seed-id>     e.g. /tmp/seed_C19 A C19-A
Checks: clean tree -> demo passes; patch applies; full suite passes with it; demo fails with it; revert."""
import json, os, shutil, subprocess, sys
wt, x, sid = sys.argv[1:4]
out = os.path.join(wt, "OUT", x)
demo = next(os.path.join(out, f) for f in ("demo.py", "demo_test.py") if os.path.exists(os.path.join(out, f)))
env = dict(os.environ, PYTHONPATH=os.path.join(wt, "src"))
def sh(cmd, **k):
    return subprocess.run(cmd, shell=True, cwd=wt, env=env, capture_output=True, text=True, **k)
ran = []
sh("git checkout -- src")
def rundemo():
    script = "demo.py" in (json.load(open(os.path.join(out, "meta.json"))).get("run_as_script") or "")
    r = None if script else sh(f"/venv/bin/python -m pytest -q -p no:cacheprovider {demo}", timeout=600)
    if r is None or r.returncode == 5:
        r = sh(f"/venv/bin/python {demo}", timeout=600)
    return r
r = rundemo(); ran.append(("clean demo", r.returncode)); clean_ok = r.returncode == 0
r = sh(f"git apply {out}/patch.diff"); ran.append(("apply", r.returncode)); apply_ok = r.returncode == 0
r = sh("/venv/bin/python -m pytest -q -p no:cacheprovider --timeout=900 -x -q tests ops"); ran.append(("suite with patch", r.returncode, r.stdout.strip().splitlines()[-1:] )); suite_ok = r.returncode == 0
r = rundemo(); ran.append(("patched demo", r.returncode)); demo_fails = r.returncode != 0
sh("git checkout -- src")
ok = clean_ok and apply_ok and suite_ok and demo_fails
print(sid, "CONFIRMED" if ok else "REJECTED", ran)
if ok:
    d = os.path.join("/verif/seeded", sid); os.makedirs(d, exist_ok=True)
    shutil.copy(os.path.join(out, "patch.diff"), d); shutil.copy(demo, os.path.join(d, "demo.py"))
    meta = json.load(open(os.path.join(out, "meta.json")))
    meta["confirmed"] = [list(map(str, r)) for r in ran]
    meta["base_commit"] = subprocess.run("git rev-parse HEAD", shell=True, cwd=wt, capture_output=True, text=True).stdout.strip()
    json.dump(meta, open(os.path.join(d, "meta.json"), "w"), indent=1)
