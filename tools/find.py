#!/venv/bin/python
"""Debug helper: search a module's case strategy for a violation kind, minimise it, print the case and dumps.
usage: tools/find.py <module e.g. c01> <kind> [n_cases] [seed]"""
import sys, json, os
sys.path.insert(0, os.path.dirname(os.path.dirname(os.path.abspath(__file__))))
import logging; logging.disable(logging.CRITICAL)
import importlib
from hypothesis import given, settings, seed, HealthCheck, Phase
from vf import wfcheck as WC
mod = importlib.import_module("vf.props." + sys.argv[1]); want = sys.argv[2]
n = int(sys.argv[3]) if len(sys.argv) > 3 else 200; sd = int(sys.argv[4]) if len(sys.argv) > 4 else 5
best = [None]
extra = getattr(mod, "EXTRA_MONITORS", ())
@seed(sd)
@settings(max_examples=n, database=None, deadline=None, phases=[Phase.generate], suppress_health_check=list(HealthCheck))
@given(mod.cases())
def t(case):
    run = WC.execute(case, extra)
    if any(v["kind"] == want for v in run.violations):
        if best[0] is None or len(json.dumps(case)) < len(json.dumps(best[0])):
            best[0] = WC.freeze_schedule(case, run)
t()
if best[0] is None:
    print("not found"); sys.exit(0)
v0 = [v for v in WC.execute(best[0], extra).violations if v["kind"] == want][0]
e = {"kind": want, "site": v0["site"], "case": best[0], "detail": ""}
m = WC.minimise_case(e, (v0["property"],), extra, budget_runs=400)
json.dump(m["case"], open("/tmp/min_case.json", "w"))
print(json.dumps(m["case"])[:4000])
c = dict(m["case"]); c["capture_dump"] = True
run = WC.execute(c, extra)
for i in run.invocations:
    print(i["inv"], i.get("outcome"), "api", i.get("api_calls"), i.get("raised"), i.get("raised_msg"))
    if i.get("abort_dump"): print(i["abort_dump"][:5000])
print([v for v in run.violations])
print("polls", run.polls)
print("log", [(l["inv"], run.backend.path_of.get(l["upd"]["Id"]), l["upd"]["Type"], l["upd"]["Action"]) for l in run.backend.log])
