#!/usr/bin/env python3
"""Regenerates /verif/MANIFEST.json from the table below (kept in one place so that it stays valid)."""
import json
import os
import sys

HERE = os.path.dirname(os.path.dirname(os.path.abspath(__file__)))

PY = "/venv/bin/python"

CHECKS = {
    # id: (category, technique, text, note, design_ref, engine)
    "C01": (
        "fault_enumeration",
        'property-based testing over generated workflow programs x crash points (exhaustive single-crash enumeration per program for a sample, random otherwise) x schedules x history paginations, run on the real SDK under a deterministic scheduler against a stateful service model; oracle = user-function entry monitor + step-leaf ground truth',
        "Every user-function entry is checked against the backend's record of that position (must not be terminal, ReplayChildren bodies excepted) across all invocations of generated executions with injected crashes, paging and pruning; step results are compared with generated ground truth.",
        'Trusted base: the service model vf/simbackend.py (wire-level; choices listed in DESIGN.md §6), the deterministic scheduler vf/detsched.py (yield points = operations of threading/queue/time primitives and backend calls, optionally source lines of selected SDK files) and the workflow interpreter vf/wfrun.py. Nothing is proved: the property held on every generated case.',
        "DESIGN.md §2 C01",
        "E1-E4 workflow",
    ),
    "C02": (
        "fault_enumeration",
        'metamorphic + per-position stability PBT: the same generated deterministic workflow is executed under two independently generated interruption patterns (crashes, schedules, paging); oracle = type-aware equality of every replayed outcome with its first completion and equality of the two final outcomes',
        'Replay transparency is checked position by position within an execution and across two executions that differ only in where they were interrupted.',
        'Trusted base: the service model vf/simbackend.py (wire-level; choices listed in DESIGN.md §6), the deterministic scheduler vf/detsched.py (yield points = operations of threading/queue/time primitives and backend calls, optionally source lines of selected SDK files) and the workflow interpreter vf/wfrun.py. Nothing is proved: the property held on every generated case.',
        "DESIGN.md §2 C02",
        "E1-E4 workflow",
    ),
    "C03": (
        "exploration",
        'schedule/fault search: generated programs x adversarial schedules (walk/PCT, line-level preemption inside state.py/threading.py) x injected API faults x crashes; oracle evaluated at the instant each durable call returns: backend table must already hold the terminal record',
        'Write-ahead is checked at the exact (virtual) instant an outcome becomes visible to user code, under schedules that preempt the batcher between any two statements of its release protocol and with failing backend calls.',
        'Trusted base: the service model vf/simbackend.py (wire-level; choices listed in DESIGN.md §6), the deterministic scheduler vf/detsched.py (yield points = operations of threading/queue/time primitives and backend calls, optionally source lines of selected SDK files) and the workflow interpreter vf/wfrun.py. Nothing is proved: the property held on every generated case.',
        "DESIGN.md §2 C03",
        "E1-E4 workflow",
    ),
    "C04": (
        "fault_enumeration",
        "crash-point enumeration: generated programs with at-most-once steps x retry strategies; a crash-free run is followed by one run per entry of an at-most-once function and per backend call of that invocation, then by second crashes inside retry attempts; oracle = entry counter per (position, backend attempt) and 'STARTED at entry'",
        "Crashes are placed by construction between 'attempt start recorded' and 'attempt outcome recorded', for first and retry attempts.",
        'Trusted base: the service model vf/simbackend.py (wire-level; choices listed in DESIGN.md §6), the deterministic scheduler vf/detsched.py (yield points = operations of threading/queue/time primitives and backend calls, optionally source lines of selected SDK files) and the workflow interpreter vf/wfrun.py. Nothing is proved: the property held on every generated case.',
        "DESIGN.md §2 C04",
        "E1-E4 workflow",
    ),
    "C08": (
        "exploration",
        "relational PBT: generated program shapes executed under two schedules/interruption patterns; oracle = identity table path<->id from the arrival log (function, injective, schedule-independent) and ParentId = id of the enclosing context's path",
        'No re-implementation of the hash: identity is judged relationally across invocations and across two executions.',
        'Trusted base: the service model vf/simbackend.py (wire-level; choices listed in DESIGN.md §6), the deterministic scheduler vf/detsched.py (yield points = operations of threading/queue/time primitives and backend calls, optionally source lines of selected SDK files) and the workflow interpreter vf/wfrun.py. Nothing is proved: the property held on every generated case.',
        "DESIGN.md §2 C08",
        "E1-E4 workflow",
    ),
    "C11": (
        "fault_enumeration",
        'model-based PBT: generated programs x dense crash plans x schedules; oracle = per-operation lifecycle automaton running inside the service model over the concatenated update stream of the whole execution',
        'Every update the SDK sends in any invocation of a generated execution is run through the lifecycle automaton.',
        'Trusted base: the service model vf/simbackend.py (wire-level; choices listed in DESIGN.md §6), the deterministic scheduler vf/detsched.py (yield points = operations of threading/queue/time primitives and backend calls, optionally source lines of selected SDK files) and the workflow interpreter vf/wfrun.py. Nothing is proved: the property held on every generated case.',
        "DESIGN.md §2 C11",
        "E1-E4 workflow",
    ),
    "C12": (
        "fault_enumeration",
        'PBT: (a) generated failing-step programs x strategies x crash plans with a recording strategy wrapper; oracle on strategy arguments, RETRY records and entry counts; (b) pure law of create_retry_strategy with the jitter source under generator control (differential against the documented formula)',
        'Attempt counting is judged against the RETRY records the backend actually accepted; the packaged strategies are compared with the documented formula for thousands of configs.',
        'Trusted base: the service model vf/simbackend.py (wire-level; choices listed in DESIGN.md §6), the deterministic scheduler vf/detsched.py (yield points = operations of threading/queue/time primitives and backend calls, optionally source lines of selected SDK files) and the workflow interpreter vf/wfrun.py. Nothing is proved: the property held on every generated case.',
        "DESIGN.md §2 C12",
        "E1-E4 workflow",
    ),
    "C13": (
        "fault_enumeration",
        'PBT: generated wait_for_condition programs (state transformers incl. in-place mutation and equal-but-distinct values, decision sequences, serdes) x crash plans between/inside polls; oracle over recorded polls (state threading, attempt numbers, RETRY payload/delay, completion)',
        'The (state, attempt) log of every poll is compared with what the previous *recorded* poll returned.',
        'Trusted base: the service model vf/simbackend.py (wire-level; choices listed in DESIGN.md §6), the deterministic scheduler vf/detsched.py (yield points = operations of threading/queue/time primitives and backend calls, optionally source lines of selected SDK files) and the workflow interpreter vf/wfrun.py. Nothing is proved: the property held on every generated case.',
        "DESIGN.md §2 C13",
        "E1-E4 workflow",
    ),
    "C14": (
        "exploration",
        'PBT with a simulated external party: generated callback/wait_for_callback/invoke programs x outcome x delivery instant (in the START response, before the next backend call, between invocations) x crashes; oracle = delivered outcome vs what the party sent, id stability, single START with payload/target/tenant',
        'All terminal and non-terminal statuses and delivery orders are generated; errors must be deferred to result().',
        'Trusted base: the service model vf/simbackend.py (wire-level; choices listed in DESIGN.md §6), the deterministic scheduler vf/detsched.py (yield points = operations of threading/queue/time primitives and backend calls, optionally source lines of selected SDK files) and the workflow interpreter vf/wfrun.py. Nothing is proved: the property held on every generated case.',
        "DESIGN.md §2 C14",
        "E1-E4 workflow",
    ),
    "C05": (
        "exploration",
        "schedule + input + configuration search: Hypothesis-generated producer scripts, batcher configurations and schedules (walk/PCT/seq, line-level yield points in state.py; all schedules with <=2 preemptions for listed small configurations) run the real ExecutionState and batcher thread under the deterministic scheduler against a recording client; stream-monitor oracle on call intervals",
        "Exactly-once delivery, hand-over order (per producer and across non-overlapping calls), token chaining, count/size limits and release of every synchronous caller are checked on each generated (config, scripts, schedule). Hangs are observable states (deadlock / virtual-time cap), not wall-clock timeouts. Sampling beyond the enumerated small configurations.",
        "The recording client never fails (C06 covers failures). Size is the SDK's documented estimate. Interleavings finer than a source line are not explored.",
        "DESIGN.md §2 C05",
        "E1 detsched",
    ),
    "C06": (
        "fault_enumeration",
        'fault-position enumeration: for each generated program the fault-free execution is run, then one execution per backend call with an injected error (class x request-lost/response-lost), plus a stage that makes failures coincide with callers inside create_checkpoint (backend latency, sleeping bodies, overflow-sized payloads) under walk/PCT schedules with line-level preemption; fail-stop oracle on the failing invocation',
        'Every position of the failing call in the first invocations of each generated program is tried; hangs are observable scheduler states.',
        'Trusted base: the service model vf/simbackend.py (wire-level; choices listed in DESIGN.md §6), the deterministic scheduler vf/detsched.py (yield points = operations of threading/queue/time primitives and backend calls, optionally source lines of selected SDK files) and the workflow interpreter vf/wfrun.py. Nothing is proved: the property held on every generated case.',
        "DESIGN.md §2 C06",
        "E1-E4 workflow",
    ),
    "C07": (
        "exploration",
        "schedule/history search: generated programs mixing all suspending operations at top level and in nested map/parallel x schedules x timer lag/latency/external delivery orders; park-soundness oracle at each PENDING return (backend's armed timers/awaited events), bounded-liveness oracle (invocation bound, deadlock and virtual-time cap as observable states)",
        "Soundness is judged against the service model's table at the instant of each PENDING return; liveness in the bounded form stated in DESIGN.md §1.",
        'Trusted base: the service model vf/simbackend.py (wire-level; choices listed in DESIGN.md §6), the deterministic scheduler vf/detsched.py (yield points = operations of threading/queue/time primitives and backend calls, optionally source lines of selected SDK files) and the workflow interpreter vf/wfrun.py. Nothing is proved: the property held on every generated case.',
        "DESIGN.md §2 C07",
        "E1-E4 workflow",
    ),
    "C09": (
        "exploration",
        'PBT over completion configurations x branch behaviours x schedules against per-branch ground truth and an independent reference of the completion policy, plus a race stage (simultaneous completions, line-level preemption in executor/models) and an exhaustive pure cross-check of ExecutionCounters against the reference',
        'Result faithfulness, not-too-early, not-too-late (blocked and suspended branches), concurrency limit, reason consistency and replay equality are all judged; the pure half is exhaustive for n<=4.',
        'Trusted base: the service model vf/simbackend.py (wire-level; choices listed in DESIGN.md §6), the deterministic scheduler vf/detsched.py (yield points = operations of threading/queue/time primitives and backend calls, optionally source lines of selected SDK files) and the workflow interpreter vf/wfrun.py. Nothing is proved: the property held on every generated case.',
        "DESIGN.md §2 C09",
        "E1-E4 workflow",
    ),
    "C10": (
        "exploration",
        "schedule search with an orphan monitor: generated early-completing map/parallel with survivor scripts; create_checkpoint is wrapped from the test side to time-stamp hand-overs, the service model records arrivals; a descendant's update handed over after the ancestor's completion and arriving after it is a violation",
        'The instant of parent completion relative to what each survivor is doing is varied by schedule, backend latency and line-level preemption.',
        'Trusted base: the service model vf/simbackend.py (wire-level; choices listed in DESIGN.md §6), the deterministic scheduler vf/detsched.py (yield points = operations of threading/queue/time primitives and backend calls, optionally source lines of selected SDK files) and the workflow interpreter vf/wfrun.py. Nothing is proved: the property held on every generated case.',
        "DESIGN.md §2 C10",
        "E1-E4 workflow",
    ),
    "C16": (
        "exploration",
        'boundary-value PBT: results padded to exact serialized lengths around the (test-side patched, sometimes true) limits, replays forced by waits/crashes; oracle on payload sizes, ReplayChildren flag, replay equality / no re-execution / no new records, and handler outputs around the response limit measured in bytes',
        'Both limits are explored at +-2 around the boundary.',
        'Trusted base: the service model vf/simbackend.py (wire-level; choices listed in DESIGN.md §6), the deterministic scheduler vf/detsched.py (yield points = operations of threading/queue/time primitives and backend calls, optionally source lines of selected SDK files) and the workflow interpreter vf/wfrun.py. Nothing is proved: the property held on every generated case.',
        "DESIGN.md §2 C16",
        "E1-E4 workflow",
    ),
    "C17": (
        "fault_enumeration",
        'PBT + crash enumeration: sequential programs with log calls between/inside units, a capturing logger, suspension or crash after every unit (every prefix of completed work) and every paging split of the history; log-judge oracle in both directions',
        "Each invocation's emitted records are compared with the set the program-order rule predicts from the history handed to that invocation.",
        'Trusted base: the service model vf/simbackend.py (wire-level; choices listed in DESIGN.md §6), the deterministic scheduler vf/detsched.py (yield points = operations of threading/queue/time primitives and backend calls, optionally source lines of selected SDK files) and the workflow interpreter vf/wfrun.py. Nothing is proved: the property held on every generated case.',
        "DESIGN.md §2 C17",
        "E1-E4 workflow",
    ),
    "C18": (
        "fault_enumeration",
        'PBT against an independent classifier table: handler behaviours (return values, every exception class at every nesting level, suspensions) x injected faults at any backend call (incl. unparsable responses) x malformed events; checks well-formedness, classification, stopped checkpoint thread',
        "The table is written from the documented contract, not from the wrapper's except-chain.",
        'Trusted base: the service model vf/simbackend.py (wire-level; choices listed in DESIGN.md §6), the deterministic scheduler vf/detsched.py (yield points = operations of threading/queue/time primitives and backend calls, optionally source lines of selected SDK files) and the workflow interpreter vf/wfrun.py. Nothing is proved: the property held on every generated case.',
        "DESIGN.md §2 C18",
        "E1-E4 workflow",
    ),
    "C15": (
        "exploration",
        "property-based testing (Hypothesis): round-trip oracle with type-aware equality over a recursive grammar of the serializer's domain, plus a reject-set generator; thorough adds a coverage-guided atheris/libFuzzer stage over the same property",
        "Thousands of generated values per run (all leaf types, nesting, envelope look-alikes, BatchResult, non-finite floats, huge ints, lone surrogates, odd tz offsets) are round-tripped through the public serialize/deserialize and ExtendedTypeSerDes and compared with a type-aware equality; values that cannot be represented must be rejected. Sampling, not proof: held on everything generated.",
        "Trusts the test-side equality (vf/values.py teq) and the generator's reading of the documented grammar; subclasses of the listed types are out of scope.",
        "DESIGN.md §2 C15",
        "E5 pure",
    ),
    "C20": (
        "exploration",
        "property-based testing (Hypothesis): round-trip + differential against an independent reference encoder/decoder of the wire protocol, over st.builds strategies for every model class and every OperationUpdate factory",
        "Every model class is generated with optional fields absent/empty/present; to_dict/from_dict and to_json_dict/from_json_dict are checked to be inverses modulo the property's stated exemptions, to_dict is compared with a reference encoder written from the protocol field names (so a consistent encode+decode swap is caught), from_dict is run on the reference's output, factories must put every option on the wire, and TimestampConverter is checked against integer arithmetic. Sampling, not proof.",
        "Trusts the reference encoder in vf/props/c20.py and the normal form (empty optional string == absent; all-absent sub-structure == absent). Timestamps are aware and within 1971-2100.",
        "DESIGN.md §2 C20",
        "E5 pure",
    ),
    "C19": (
        "exploration",
        "schedule search under a deterministic scheduler that owns every thread switch: exhaustive DFS over all interleavings (primitive granularity) for small configurations, preemption-bounded enumeration for 3-4 task configurations, Hypothesis-generated scripts x walk/PCT schedules with line-level yield points; invariant oracle over the recorded history",
        "The real OrderedLock/OrderedCounter run on real threads whose every switch is chosen by the harness; FIFO (on unambiguous arrivals), mutual exclusion, no lost wake-up (deadlock is an observable state), breakage semantics and gap-free counter values are checked on every schedule. Exhaustive only for the configurations listed in the evidence; sampled beyond.",
        "Yield points are the operations of threading primitives (plus every source line of threading.py in the sampled phase); finer interleavings are not explored. The arrival order is only asserted when the earlier task is observably parked inside acquire.",
        "DESIGN.md §2 C19",
        "E1 detsched",
    ),
}

NOT_APPLICABLE: list = []


def main() -> int:
    checks = []
    for pid, (cat, tech, text, note, ref, engine) in sorted(CHECKS.items()):
        checks.append(
            {
                "property_id": pid,
                "quick_cmd": f"{PY} check.py {pid} --tier quick",
                "thorough_cmd": f"{PY} check.py {pid} --tier thorough",
                "evidence_file": f"/verif/evidence/{pid}.json",
                "replay_cmd_template": f"{PY} check.py {pid} --replay {{path}}",
                "engine": engine,
                "level_claimed": {"category": cat, "text": text, "design_ref": ref},
                "level_note": note,
                "technique": tech,
            }
        )
    claimed = set(CHECKS)
    props = [json.loads(line)["id"] for line in open(os.path.join(HERE, "properties.jsonl"))]
    na = list(NOT_APPLICABLE)
    na_ids = {e["property_id"] for e in na}
    for p in props:
        if p not in claimed and p not in na_ids:
            na.append({"property_id": p, "reason": "check not built yet in this revision (work in progress; see DESIGN.md §8 build order)"})
    manifest = {
        "version": 1,
        "setup_cmd": "sh /verif/setup.sh",
        "hooks": {
            "guard": "AWS_DURABLE_EXECUTION_SDK_PYTHON_VERIF",
            "enable": "no source hooks are needed: checks import /repo/src directly (editable install + sys.path) and instrument from the test side; check.py sets AWS_DURABLE_EXECUTION_SDK_PYTHON_VERIF=1 for uniformity",
            "baseline_off_cmd": "cd /repo && /venv/bin/python -m pytest -ra -q -p no:cacheprovider --timeout=900 --continue-on-collection-errors",
            "source_commits": [],
            "add_only": True,
        },
        "engines": [
            {"name": "E1 detsched", "path": "vf/detsched.py", "serves_properties": ["C05", "C19"], "kind_free_text": "deterministic cooperative scheduler over real threads, virtual clock, shims of threading/queue/time/concurrent.futures, DFS / bounded / walk / PCT choosers"},
            {"name": "E1-E4 workflow", "path": "vf/wfrun.py", "serves_properties": ["C01", "C02", "C03", "C04", "C06", "C07", "C08", "C09", "C10", "C11", "C12", "C13", "C14", "C16", "C17", "C18"], "kind_free_text": "workflow DSL generator (vf/wfgen.py) + interpreter/driver (vf/wfrun.py) on the real SDK handler under detsched, stateful wire-level service model (vf/simbackend.py), history monitors (vf/monitors.py)"},
            {"name": "E5 pure", "path": "vf/props", "serves_properties": ["C15", "C20"], "kind_free_text": "Hypothesis properties over pure data, atheris stage in thorough"},
        ],
        "checks": checks,
        "not_applicable": na,
        "notes": "All checks: property-based testing / fuzzing (Hypothesis generators, stateful histories, deterministic-schedule search, fault/crash plans) against explicit oracles. See DESIGN.md.",
    }
    with open(os.path.join(HERE, "MANIFEST.json"), "w") as f:
        json.dump(manifest, f, indent=1)
    return 0


if __name__ == "__main__":
    sys.exit(main())
