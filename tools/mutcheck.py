#!/usr/bin/env python3
"""Sensitivity sweep: apply each listed source mutation to a scratch copy of /repo/src (never to /repo),
run the property's quick check against it (VERIF_REPO), expect exit 1; then run it on the clean copy and expect 0.

usage: tools/mutcheck.py [PROP ...] [--only NAME] [--tier quick]
Mutants live in tools/mutants/<PROP>.py as  MUTANTS = [(name, relpath, old, new), ...]
Seeded changes from sub-agents (seeded/<id>/patch.diff) are applied with `patch -p1`.
"""
import argparse
import glob
import importlib.util
import json
import os
import shutil
import subprocess
import sys
import tempfile
import time

HERE = os.path.dirname(os.path.dirname(os.path.abspath(__file__)))
REPO = "/repo"


def scratch():
    d = tempfile.mkdtemp(prefix="vfmut-")
    shutil.copytree(os.path.join(REPO, "src"), os.path.join(d, "src"))
    return d


def run(prop, repo_dir, tier, seed=None):
    seed = seed or os.environ.get("VERIF_SEED", "1")
    out = tempfile.mkdtemp(prefix="vfout-")
    env = dict(os.environ, VERIF_REPO=repo_dir, VERIF_OUT=out, VERIF_SEED=seed)
    t = time.time()
    p = subprocess.run(["/venv/bin/python", os.path.join(HERE, "check.py"), prop, "--tier", tier], env=env, capture_output=True, text=True, cwd=HERE)
    shutil.rmtree(out, ignore_errors=True)
    lines = [l for l in p.stdout.splitlines() if l.startswith(("VIOLATION", "  kind=", "HARNESS", "INCONCLUSIVE"))]
    return p.returncode, time.time() - t, lines, p.stdout, p.stderr


def load_mutants(prop):
    path = os.path.join(HERE, "tools", "mutants", f"{prop}.py")
    if not os.path.exists(path):
        return []
    spec = importlib.util.spec_from_file_location(f"mut_{prop}", path)
    m = importlib.util.module_from_spec(spec)
    spec.loader.exec_module(m)
    return m.MUTANTS


def main():
    ap = argparse.ArgumentParser()
    ap.add_argument("props", nargs="*")
    ap.add_argument("--only")
    ap.add_argument("--tier", default="quick")
    ap.add_argument("--seeded", action="store_true", help="also run seeded/<id>/patch.diff changes")
    ap.add_argument("--verbose", action="store_true")
    ap.add_argument("--seeds-only", action="store_true")
    a = ap.parse_args()
    props = a.props or sorted({os.path.basename(p)[:-3] for p in glob.glob(os.path.join(HERE, "tools", "mutants", "C*.py"))} | {os.path.basename(d).split("-")[0] for d in glob.glob(os.path.join(HERE, "seeded", "C*"))})
    results = []
    for prop in props:
        jobs = [] if a.seeds_only else [("mutant", *m) for m in load_mutants(prop)]
        if a.seeded:
            for d in sorted(glob.glob(os.path.join(HERE, "seeded", "*"))):
                meta = os.path.join(d, "meta.json")
                if os.path.exists(meta) and prop in json.load(open(meta)).get("run_checks", [json.load(open(meta)).get("property")]):
                    jobs.append(("seeded", os.path.basename(d), os.path.join(d, "patch.diff"), None, None))
        for job in jobs:
            kind, name = job[0], job[1]
            if a.only and a.only != name:
                continue
            d = scratch()
            try:
                if kind == "mutant":
                    _, _, rel, old, new = job
                    path = os.path.join(d, rel)
                    s = open(path).read()
                    if s.count(old) < 1:
                        print(f"{prop} {name}: PATTERN NOT FOUND in {rel}")
                        results.append((prop, name, "nopattern"))
                        continue
                    open(path, "w").write(s.replace(old, new, 1))
                else:
                    r = subprocess.run(["patch", "-p1", "-s", "-i", job[2]], cwd=d, capture_output=True, text=True)
                    if r.returncode != 0:
                        print(f"{prop} {name}: PATCH FAILED {r.stdout} {r.stderr}")
                        print(f"{prop} seeded:{name}: PATCHFAIL (the patch no longer applies to the current tree - rebase it)", flush=True)
                        results.append((prop, name, "patchfail"))
                        continue
                rc, wall, lines, so, se = run(prop, d, a.tier)
                verdict = "CAUGHT" if rc == 1 else ("MISSED" if rc == 0 else f"ERROR rc={rc}")
                print(f"{prop} {kind}:{name}: {verdict} ({wall:.0f}s) " + (" | ".join(lines[:4])[:300] if rc else ""))
                if a.verbose or rc not in (0, 1):
                    print(so[-3000:], se[-2000:])
                results.append((prop, name, verdict))
            finally:
                shutil.rmtree(d, ignore_errors=True)
    missed = [r for r in results if r[2] != "CAUGHT"]
    print(f"\n{len(results)} mutants, {len(results) - len(missed)} caught, {len(missed)} not: {missed}")
    return 0


if __name__ == "__main__":
    sys.exit(main())
