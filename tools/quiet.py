#!/usr/bin/env python3
"""Quietness sweep: every check, several seeds, fresh processes, outputs to a scratch dir (never touches evidence/).
usage: tools/quiet.py [--seeds 1,2,3] [--tier quick] [--props C01,C02] [--jobs 3]"""
import argparse, os, subprocess, sys, tempfile, shutil, json, time
from concurrent.futures import ThreadPoolExecutor
HERE = os.path.dirname(os.path.dirname(os.path.abspath(__file__)))
ap = argparse.ArgumentParser(); ap.add_argument("--seeds", default="1,2,3,4,5"); ap.add_argument("--tier", default="quick")
ap.add_argument("--props"); ap.add_argument("--jobs", type=int, default=3); a = ap.parse_args()
props = a.props.split(",") if a.props else [c["property_id"] for c in json.load(open(os.path.join(HERE, "MANIFEST.json")))["checks"]]
def one(args):
    p, sd = args
    out = tempfile.mkdtemp(prefix="vfq-")
    env = dict(os.environ, VERIF_SEED=str(sd), VERIF_OUT=out)
    t = time.time()
    r = subprocess.run(["/venv/bin/python", os.path.join(HERE, "check.py"), p, "--tier", a.tier], env=env, capture_output=True, text=True, cwd=HERE)
    lines = [l for l in r.stdout.splitlines() if l.startswith(("VIOLATION", "  kind=", "  detail=", "HARNESS", "INCONCLUSIVE"))]
    keep = None
    if r.returncode != 0:
        keep = os.path.join("/tmp", f"quietfail-{p}-{sd}")
        shutil.rmtree(keep, ignore_errors=True); shutil.copytree(out, keep)
        open(os.path.join(keep, "stdout.txt"), "w").write(r.stdout + "\n" + r.stderr[-3000:])
    shutil.rmtree(out, ignore_errors=True)
    return p, sd, r.returncode, time.time() - t, lines, keep
jobs = [(p, int(s)) for s in a.seeds.split(",") for p in props]
bad = []
with ThreadPoolExecutor(a.jobs) as ex:
    for p, sd, rc, wall, lines, keep in ex.map(one, jobs):
        print(f"{p} seed={sd} rc={rc} {wall:.0f}s" + ("  " + " | ".join(lines[:3])[:300] + f"  [{keep}]" if rc else ""), flush=True)
        if rc: bad.append((p, sd, rc))
print("NON-QUIET:", bad)
