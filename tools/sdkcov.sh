#!/bin/sh
# Development aid: which lines of the SDK do the quick checks execute? (coverage is measured inside the shard workers)
# usage: tools/sdkcov.sh [PROP ...]    -> report on stdout, data under /tmp/vfcov (removed first)
D=/tmp/vfcov; rm -rf $D; mkdir -p $D
cd "$(dirname "$0")/.."
for p in ${@:-C01 C02 C03 C04 C05 C06 C07 C08 C09 C10 C11 C12 C13 C14 C15 C16 C17 C18 C19 C20}; do
  VERIF_COVERAGE=$D VERIF_OUT=$D/out /venv/bin/python check.py $p 2>&1 | tail -1
done
cd $D && /venv/bin/python -m coverage combine --data-file=$D/.coverage $D/.coverage.* >/dev/null 2>&1
/venv/bin/python -m coverage report --data-file=$D/.coverage -m
