"""Self-tests of the scheduler: a classic lost wake-up must be found, a correct toy must stay quiet."""
import os, sys, time
sys.path.insert(0, os.path.dirname(os.path.dirname(os.path.abspath(__file__))))
from vf import detsched as D
D.install()
import threading, queue

def lost_wakeup_scenario():
    # consumer checks flag then waits on event; producer sets flag then event.clear()/set() ordering bug
    state = {"ready": False}
    ev = threading.Event()
    out = {}
    def consumer():
        if not state["ready"]:      # check
            ev.clear()              # BUG: clears a wake-up that may already have been sent
            ev.wait()
        out["c"] = True
    def producer():
        state["ready"] = True
        ev.set()
    a = threading.Thread(target=consumer); b = threading.Thread(target=producer)
    a.start(); b.start(); a.join(); b.join()
    return out

def correct_scenario():
    q = queue.Queue(); lock = threading.Lock(); tot = {"n": 0}
    def prod(k):
        for i in range(3):
            q.put((k, i))
    def cons():
        for _ in range(6):
            k, i = q.get(timeout=5)
            with lock:
                tot["n"] += 1
    ts = [threading.Thread(target=prod, args=(0,)), threading.Thread(target=prod, args=(1,)), threading.Thread(target=cons)]
    for t in ts: t.start()
    for t in ts: t.join()
    assert tot["n"] == 6
    return tot

def run(fn, chooser):
    s = D.Scheduler(chooser)
    s.run(fn)
    return s

t0 = time.time()
found = 0; n = 0
for sched, _ in D.explore_all(lambda ch: (run(lost_wakeup_scenario, ch), None)):
    n += 1
    if sched.outcome == "deadlock":
        found += 1
print(f"lost-wakeup toy: {n} schedules, {found} deadlocks, {time.time()-t0:.2f}s")
assert found > 0
t0 = time.time(); bad = 0
for i in range(2000):
    s = run(correct_scenario, D.Walk(i))
    if s.outcome != "finished" or s.root_exc is not None:
        bad += 1; print(s.outcome, s.root_exc)
print(f"correct toy: 2000 walks, {bad} bad, {time.time()-t0:.2f}s")
assert bad == 0
n = 0
for sched, _ in D.explore_all(lambda ch: (run(correct_scenario, ch), None), max_runs=3000):
    n += 1
    assert sched.outcome == "finished" and sched.root_exc is None, (sched.outcome, sched.root_exc)
print("correct toy DFS prefix:", n, "schedules ok")
# ThreadPoolExecutor clone
from concurrent.futures import ThreadPoolExecutor
def tpe():
    with ThreadPoolExecutor(max_workers=2) as ex:
        fs = [ex.submit(lambda x=x: x * 2) for x in range(4)]
        return [f.result() for f in fs]
for i in range(200):
    s = run(tpe, D.Walk(i))
    assert s.root_result == [0, 2, 4, 6], (s.outcome, s.root_exc, s.root_result)
print("tpe clone ok; virtual sleep:")
def sl():
    t = time.time(); time.sleep(100); return time.time() - t
s = run(sl, D.SeqPreempt()); assert abs(s.root_result - 100) < 1e-6; print("ok", s.root_result)
