#!/venv/bin/python
"""Debug helper: run a module's case strategy n times and count ALL monitor signals (any property)."""
import sys, json, os, collections, importlib
sys.path.insert(0, os.path.dirname(os.path.dirname(os.path.abspath(__file__))))
import logging; logging.disable(logging.CRITICAL)
from hypothesis import given, settings, seed, HealthCheck, Phase
from vf import wfcheck as WC
mod = importlib.import_module("vf.props." + sys.argv[1]); n = int(sys.argv[2]) if len(sys.argv) > 2 else 100
sd = int(sys.argv[3]) if len(sys.argv) > 3 else 5
cnt = collections.Counter(); ex = {}
extra = getattr(mod, "EXTRA_MONITORS", ())
@seed(sd)
@settings(max_examples=n, database=None, deadline=None, phases=[Phase.generate], suppress_health_check=list(HealthCheck))
@given(mod.cases())
def t(case):
    run = WC.execute(case, extra)
    for v in run.violations:
        k = (v["property"], v["kind"], v["site"]); cnt[k] += 1
        if k not in ex or len(json.dumps(case)) < len(json.dumps(ex[k][0])): ex[k] = (case, v["detail"])
t()
for k, c in sorted(cnt.items()):
    print(c, k); print("     ", ex[k][1][:500])
