"""Verification framework for aws-durable-execution-sdk-python (property-based testing / fuzzing).

See /verif/DESIGN.md. Everything here runs against /repo's current working tree.
"""
import os
import sys

REPO = os.environ.get("VERIF_REPO", "/repo")
VERIF = os.path.dirname(os.path.dirname(os.path.abspath(__file__)))
GUARD = "AWS_DURABLE_EXECUTION_SDK_PYTHON_VERIF"


def ensure_repo_on_path() -> None:
    src = os.path.join(REPO, "src")
    if src not in sys.path:
        sys.path.insert(0, src)
    deps = os.path.join(VERIF, ".deps")
    if os.path.isdir(deps) and deps not in sys.path:
        sys.path.append(deps)
