"""E1 detsched - deterministic cooperative scheduler, virtual clock and primitive shims.

Real OS threads, but exactly one *managed task* holds the baton at any time. A task gives the baton up only
at a yield point (every operation of a shimmed primitive, every backend API call, optionally every source
line of selected files). Which task runs next is decided by a chooser that is a pure function of pre-drawn
data, so a run is a pure function of (code, case). Blocking is modelled (predicate + optional deadline);
virtual time advances only when no task is enabled.

install() must run before the SDK is imported (it also re-binds names in already imported SDK modules).
"""
from __future__ import annotations

import collections
import datetime as _dt
import importlib.util
import os
import queue as _queue_mod
import random as _random_mod
import sys
import threading as _threading
import _thread
import time as _time
import traceback
import types
import weakref
from typing import Any, Callable

# ----------------------------------------------------------------------------- originals
_real = types.SimpleNamespace(
    Lock=_threading.Lock,
    RLock=_threading.RLock,
    Event=_threading.Event,
    Condition=_threading.Condition,
    Semaphore=_threading.Semaphore,
    BoundedSemaphore=_threading.BoundedSemaphore,
    Thread=_threading.Thread,
    Queue=_queue_mod.Queue,
    SimpleQueue=_queue_mod.SimpleQueue,
    time=_time.time,
    monotonic=_time.monotonic,
    sleep=_time.sleep,
    random=_random_mod.random,
    datetime=_dt.datetime,
)

T0 = 1_800_000_000.0  # virtual epoch (2027-01-15T08:00:00Z): fixed, so runs are reproducible

_tl = _threading.local()


class SchedAbort(BaseException):
    """Process death / freeze: delivered to every managed task at its current yield point."""


class HarnessError(Exception):
    pass


class InjectedFault(RuntimeError):
    """Raised on purpose by a fake service client (fault injection): never a harness error, wherever it surfaces."""


def is_harness_exc(e: BaseException) -> bool:
    """True if the exception was raised by the verification machinery itself (innermost frame under /verif/vf):
    such an error must end the check with exit code 2, never as a VIOLATION."""
    import os as _os

    here = _os.path.dirname(_os.path.abspath(__file__))
    tb = e.__traceback__
    last = None
    while tb is not None:
        last = tb
        tb = tb.tb_next
    if isinstance(e, InjectedFault) or getattr(e, "injected_fault", False):
        return False
    return last is not None and _os.path.abspath(last.tb_frame.f_code.co_filename).startswith(here) and not isinstance(e, AssertionError)


def current_task():
    return getattr(_tl, "task", None)


def managed() -> bool:
    return getattr(_tl, "task", None) is not None and not getattr(_tl, "internal", 0)


class _Internal:
    """Harness-internal section: dispatchers hand out real primitives even on a managed thread."""

    def __enter__(self):
        _tl.internal = getattr(_tl, "internal", 0) + 1

    def __exit__(self, *a):
        _tl.internal -= 1


_internal = _Internal()


def cur_sched():
    t = getattr(_tl, "task", None)
    return t.sched if t is not None else None


# ----------------------------------------------------------------------------- choosers


class Chooser:
    """Decides which enabled task runs next. `enabled` is sorted by task id; `cur` may be None or not enabled."""

    def choose(self, enabled, cur, step):  # -> index into enabled
        raise NotImplementedError

    def on_spawn(self, task):
        pass


class SeqPreempt(Chooser):
    """Run the current task until it blocks, then the lowest id; a few (step, k) directives force switches."""

    def __init__(self, directives=()):
        self.d = {int(s): int(k) for s, k in directives}

    def choose(self, enabled, cur, step):
        if step in self.d:
            return self.d[step] % len(enabled)
        if cur is not None and cur in enabled:
            return enabled.index(cur)
        return 0


class Walk(Chooser):
    """Uniform random walk; stickiness p keeps the current task (fewer context switches, deeper runs)."""

    def __init__(self, seed: int, stick: float = 0.0):
        self.r = _random_mod.Random(seed)
        self.stick = stick

    def choose(self, enabled, cur, step):
        if self.stick and cur is not None and cur in enabled and self.r.random() < self.stick:
            return enabled.index(cur)
        return self.r.randrange(len(enabled))


class PCT(Chooser):
    """Probabilistic concurrency testing: random task priorities, d priority-change points."""

    def __init__(self, seed: int, depth: int = 2, horizon: int = 400):
        self.r = _random_mod.Random(seed)
        self.prio: dict[int, float] = {}
        self.change = sorted(self.r.randrange(1, max(2, horizon)) for _ in range(depth))
        self.low = 0.0

    def on_spawn(self, task):
        self.prio[task.id] = 1.0 + self.r.random()

    def choose(self, enabled, cur, step):
        while self.change and step >= self.change[0]:
            self.change.pop(0)
            if cur is not None:
                self.low -= 1.0
                self.prio[cur.id] = self.low
        best = max(range(len(enabled)), key=lambda i: (self.prio.get(enabled[i].id, 1.0), -enabled[i].id))
        return best


class Trace(Chooser):
    """Replays recorded decisions (indices at decision points with >1 enabled task); then falls back."""

    def __init__(self, choices, fallback: Chooser | None = None):
        self.c = list(choices)
        self.i = 0
        self.fb = fallback or SeqPreempt()

    def choose(self, enabled, cur, step):
        if self.i < len(self.c):
            k = self.c[self.i]
            self.i += 1
            return k % len(enabled)
        self.i += 1
        return self.fb.choose(enabled, cur, step)


def make_chooser(spec) -> Chooser:
    """spec: {'mode': 'seq'|'walk'|'pct'|'trace', ...} (JSON-able, part of the generated case)."""
    m = spec.get("mode", "seq")
    if m == "seq":
        return SeqPreempt(spec.get("preempt", ()))
    if m == "walk":
        return Walk(spec.get("seed", 0), spec.get("stick", 0.0))
    if m == "pct":
        return PCT(spec.get("seed", 0), spec.get("depth", 2), spec.get("horizon", 400))
    if m == "trace":
        return Trace(spec.get("choices", ()), make_chooser(spec["then"]) if spec.get("then") else None)
    if m == "linepreempt":
        return LinePreempt(spec["k"], tuple(spec.get("kinds", ("line",))), spec.get("order", "low"), spec.get("stall", 0.0))
    raise ValueError(m)


# ----------------------------------------------------------------------------- scheduler


class Task:
    __slots__ = ("id", "name", "sched", "sem", "state", "pred", "deadline", "timed_out", "thread", "exc", "orphan", "kind", "blocked_on", "last_line", "pending_stall")

    def __init__(self, sched, tid, name):
        self.id = tid
        self.name = name
        self.sched = sched
        self.sem = _thread.allocate_lock()  # C-level lock used as the baton semaphore
        self.sem.acquire()
        self.state = "new"  # new | runnable | blocked | done
        self.pred = None
        self.deadline = None
        self.timed_out = False
        self.thread = None
        self.exc = None
        self.kind = ""
        self.blocked_on = ""
        self.pending_stall = None

    def __repr__(self):
        return f"<Task {self.id} {self.name} {self.state}>"


class Scheduler:
    def __init__(
        self,
        chooser: Chooser | None = None,
        *,
        time_cap: float = 300.0,
        step_cap: int = 400_000,
        randoms=(),
        start_time: float = T0,
        on_yield: Callable | None = None,
    ):
        self.chooser = chooser or SeqPreempt()
        self.tasks: list[Task] = []
        self.t_start = float(start_time)
        self.last_advance_step = 0  # scheduling step at which virtual time last moved (a run that hits the step cap long after is spinning)
        self.rel = 0.0  # virtual seconds since the start of the run, kept rounded to 1 us so that equal instants coincide
        self.time_cap = time_cap
        self.step_cap = step_cap
        self.step = 0
        self.aborting = False
        self.abort_reason = None  # 'crash' | 'deadlock' | 'time_cap' | 'step_cap' | 'end'
        self.outcome = None
        self.trace: list[int] = []  # decisions at points with >1 enabled
        self.branching: list[int] = []
        self.switches = 0
        self.kinds = collections.Counter()
        with _internal:
            self._done = _real.Event()
        self._randoms = list(randoms)
        self._ri = 0
        self.root: Task | None = None
        self.root_result = None
        self.root_exc = None
        self.on_yield = on_yield
        self.cur: Task | None = None
        self.deadlock_info = None
        self.line_mode = False
        self.line_files = None  # None = every registered file; else the set of file names that yield in this run
        self.capture_dump = False
        self.on_root_done = None
        self.abort_dump = None
        self.yield_on_release = False  # a release is followed by the releaser's next yield point anyway
        if cf_thread is not None:
            # module-level lock of the cloned executor module: fresh per run (a crashed run may have died holding it)
            cf_thread._global_shutdown_lock = MLock()
            cf_thread._shutdown = False

    @property
    def now(self) -> float:
        return self.t_start + self.rel

    # -- virtual randomness --------------------------------------------------------------
    def next_random(self) -> float:
        if self._ri < len(self._randoms):
            v = self._randoms[self._ri]
        else:
            v = 0.5
        self._ri += 1
        return v

    # -- task creation ------------------------------------------------------------------
    def spawn(self, fn, name="task", kind="") -> Task:
        t = Task(self, len(self.tasks), name)
        t.kind = kind
        self.tasks.append(t)
        self.chooser.on_spawn(t)

        def boot():
            _tl.task = t
            t.sem.acquire()  # wait for the baton
            try:
                if self.aborting:
                    raise SchedAbort()
                fn()
            except SchedAbort:
                pass
            except BaseException as e:  # noqa: BLE001
                t.exc = e
            finally:
                self._finish(t)

        with _internal:
            th = _real.Thread(target=boot, name=f"vf-{t.id}-{name}", daemon=True)
            t.thread = th
            th.start()
        t.state = "runnable"
        return t

    def run(self, fn, *, watchdog_s: float = 120.0):
        """Run fn as the root task to completion of the root; then freeze everything else. Called from an
        unmanaged thread."""
        assert not managed()

        def root():
            try:
                self.root_result = fn()
            except SchedAbort:
                raise
            except BaseException as e:  # noqa: BLE001
                self.root_exc = e

        import gc

        gc_was = gc.isenabled()
        gc.disable()  # no GC-triggered weakref callbacks / finalizers at arbitrary points of a run
        try:
            self.root = self.spawn(root, "root", "root")
            self.cur = self.root
            self.root.sem.release()
            ok = self._done.wait(watchdog_s)
        finally:
            if gc_was:
                gc.enable()
        if not ok:
            dump = self.dump()
            raise HarnessError("watchdog: scheduler made no progress in real time\n" + dump)
        if self.outcome is None:
            self.outcome = "finished"
        return self.outcome

    def dump(self) -> str:
        lines = [f"now={self.rel:.3f} step={self.step} aborting={self.aborting} reason={self.abort_reason}"]
        frames = sys._current_frames()
        for t in self.tasks:
            lines.append(f"  {t!r} blocked_on={t.blocked_on} deadline={t.deadline}")
            if t.thread is not None and t.thread.ident in frames and t.state != "done":
                lines.extend("      " + l for l in "".join(traceback.format_stack(frames[t.thread.ident], limit=8)).splitlines()[-12:])
        return "\n".join(lines)

    # -- core ---------------------------------------------------------------------------
    def _enabled(self) -> list[Task]:
        out = []
        for t in self.tasks:
            if t.state == "runnable":
                out.append(t)
            elif t.state == "blocked":
                if t.pred is not None and t.pred():
                    out.append(t)
                elif t.deadline is not None and t.deadline <= self.rel:
                    out.append(t)
        return out

    def _pick(self, cur: Task | None) -> Task | None:
        """Choose the next task to run (may advance virtual time / enter abort mode)."""
        if self.aborting:
            for t in self.tasks:
                if t.state != "done" and t is not cur:
                    return t
            return cur if (cur is not None and cur.state != "done") else None
        while True:
            en = self._enabled()
            if en:
                break
            live = [t for t in self.tasks if t.state != "done"]
            if not live:
                return None
            deadlines = [t.deadline for t in live if t.state == "blocked" and t.deadline is not None]
            if not deadlines:
                self.deadlock_info = [(t.name, t.blocked_on) for t in live]
                self._abort("deadlock")
                return self._pick(cur)
            nxt = min(deadlines)
            if nxt > self.time_cap:
                self.deadlock_info = [(t.name, t.blocked_on) for t in live]
                self._abort("time_cap")
                return self._pick(cur)
            if nxt > self.rel:
                self.last_advance_step = self.step
            self.rel = max(self.rel, nxt)
        self.step += 1
        if self.step > self.step_cap:
            self._abort("step_cap")
            return self._pick(cur)
        if len(en) == 1:
            return en[0]
        # a task that blocked is not "current" any more: when time advances to an instant at which it and others
        # become runnable together, the chooser decides among them without favouring the one that blocked last
        cur_for_choice = cur if (cur is not None and cur.state == "runnable") else None
        i = self.chooser.choose(en, cur_for_choice, self.step)
        self.trace.append(i)
        self.branching.append(len(en))
        return en[i]

    def _abort(self, reason: str) -> None:
        if not self.aborting:
            if reason in ("deadlock", "time_cap") and self.capture_dump:
                self.abort_dump = self.dump()
            self.aborting = True
            self.abort_reason = reason
            if self.outcome is None:
                self.outcome = {"crash": "crashed", "end": None}.get(reason, reason)

    def _resume(self, nxt: Task) -> None:
        if nxt.state == "blocked":
            nxt.timed_out = not (nxt.pred is not None and nxt.pred()) if not self.aborting else False
            nxt.state = "runnable"
            nxt.pred = None
            nxt.deadline = None
        self.cur = nxt
        nxt.sem.release()

    def _switch(self, cur: Task) -> None:
        nxt = self._pick(cur)
        if nxt is None or nxt is cur:
            if nxt is cur and cur.state == "blocked":
                self._resume_self(cur)
            return
        self.switches += 1
        self._resume(nxt)
        cur.sem.acquire()

    def _resume_self(self, cur: Task) -> None:
        cur.timed_out = not (cur.pred is not None and cur.pred()) if not self.aborting else False
        cur.state = "runnable"
        cur.pred = None
        cur.deadline = None

    def _finish(self, t: Task) -> None:
        t.state = "done"
        if t is self.root and not self.aborting:
            # the handler returned: freeze whatever is still alive (Lambda freezes the sandbox)
            if self.on_root_done is not None:
                self.on_root_done(self)
            self._abort("end")
        nxt = self._pick(None)
        if nxt is None:
            self._done.set()
            return
        self._resume(nxt)

    # -- API for shims ------------------------------------------------------------------
    def yield_point(self, kind: str = "") -> None:
        t = current_task()
        if t is None or t.sched is not self:
            return
        if self.aborting:
            if kind in _BLOCKING_KINDS:
                raise SchedAbort()
            return
        self.kinds[kind] += 1
        if self.on_yield is not None:
            self.on_yield(self, t, kind)
        stall = getattr(t, "pending_stall", None)
        if stall:
            # the chooser asked for this task to be descheduled across virtual time (a long preemption: GC pause,
            # noisy neighbour): everything else, including timed waits, proceeds meanwhile
            t.pending_stall = None
            self.block(None, stall, "stall")
            return
        self._switch(t)
        if self.aborting:
            raise SchedAbort()

    def block(self, pred, timeout: float | None = None, what: str = "") -> bool:
        """Block the current task until pred() holds or timeout elapses (virtual). Returns True if pred holds."""
        t = current_task()
        if t is None or t.sched is not self:
            raise HarnessError(f"blocking shim operation ({what}) from an unmanaged thread")
        if self.aborting:
            raise SchedAbort()
        if pred is not None and pred():
            return True
        if timeout is not None and timeout <= 0:
            return False
        t.state = "blocked"
        t.pred = pred
        t.deadline = None if timeout is None else round(self.rel + timeout, 6)
        if t.deadline is not None and t.deadline <= self.rel:
            # a positive timeout below the clock's resolution still lets time pass (one tick): otherwise a loop of the
            # form `while now < due: wait(due - now)` would spin for ever at one virtual instant
            t.deadline = round(self.rel + 1e-6, 6)
        t.blocked_on = what
        self._switch(t)
        t.blocked_on = ""
        if self.aborting:
            raise SchedAbort()
        return not t.timed_out

    def run_parallel(self, fns, names=None) -> list:
        """From a managed task: start the callables as tasks (no yield point per start) and block until all are done."""
        ts = [self.spawn(f, (names[i] if names else f"p{i}"), "thread") for i, f in enumerate(fns)]
        self.block(lambda: all(t.state == "done" for t in ts), None, "run_parallel")
        return ts

    def sleep(self, secs: float) -> None:
        self.block(None, max(0.0, secs), what="sleep") if secs > 0 else self.yield_point("sleep0")

    def crash(self) -> None:
        """Process death now: nothing else of this invocation runs."""
        self._abort("crash")
        raise SchedAbort()

    def vtime(self) -> float:
        return self.now

    def elapsed(self) -> float:
        return self.rel


_BLOCKING_KINDS = {"api", "lock.acquire", "queue.get", "sem.acquire", "cond.wait", "event.wait", "join", "user"}


# ----------------------------------------------------------------------------- shims


def _sched_or_none():
    t = getattr(_tl, "task", None)
    if t is None or getattr(_tl, "internal", 0):
        return None
    return t.sched


class MLock:
    def __init__(self):
        self._locked = False
        self._owner = None

    def acquire(self, blocking=True, timeout=-1):
        s = _sched_or_none()
        if s is None:
            if self._locked:
                if not blocking:
                    return False
                raise HarnessError("unmanaged thread would block on a managed Lock")
            self._locked = True
            return True
        s.yield_point("lock.acquire")
        if self._locked:
            if not blocking:
                return False
            to = None if timeout is None or timeout < 0 else timeout
            if not s.block(lambda: not self._locked, to, "Lock"):
                return False
        self._locked = True
        self._owner = current_task()
        return True

    def release(self):
        if not self._locked:
            raise RuntimeError("release unlocked lock")
        self._locked = False
        self._owner = None
        s = _sched_or_none()
        if s is not None and not s.aborting and s.yield_on_release:
            s.yield_point("lock.release")

    def locked(self):
        return self._locked

    __enter__ = acquire

    def __exit__(self, *a):
        self.release()

    def _at_fork_reinit(self):
        self._locked = False


class MRLock:
    def __init__(self):
        self._owner = None
        self._count = 0

    def acquire(self, blocking=True, timeout=-1):
        me = current_task() or _threading.get_ident()
        s = _sched_or_none()
        if self._owner is me:
            self._count += 1
            return True
        if s is None:
            if self._owner is not None:
                if not blocking:
                    return False
                raise HarnessError("unmanaged thread would block on a managed RLock")
            self._owner, self._count = me, 1
            return True
        s.yield_point("lock.acquire")
        if self._owner is not None:
            if not blocking:
                return False
            to = None if timeout is None or timeout < 0 else timeout
            if not s.block(lambda: self._owner is None, to, "RLock"):
                return False
        self._owner, self._count = me, 1
        return True

    def release(self):
        me = current_task() or _threading.get_ident()
        if self._owner is not me:
            raise RuntimeError("cannot release un-acquired lock")
        self._count -= 1
        if self._count == 0:
            self._owner = None
            s = _sched_or_none()
            if s is not None and not s.aborting and s.yield_on_release:
                s.yield_point("lock.release")

    __enter__ = acquire

    def __exit__(self, *a):
        self.release()

    # Condition support
    def _is_owned(self):
        return self._owner is (current_task() or _threading.get_ident())

    def _release_save(self):
        st = (self._owner, self._count)
        self._owner, self._count = None, 0
        return st

    def _acquire_restore(self, st):
        s = _sched_or_none()
        if self._owner is not None:
            if s is None:
                raise HarnessError("unmanaged thread would block on a managed RLock")
            s.block(lambda: self._owner is None, None, "RLock.restore")
        self._owner, self._count = st


class MEvent:
    def __init__(self):
        self._flag = False

    def is_set(self):
        s = _sched_or_none()
        if s is not None and not s.aborting:
            s.yield_point("event.is_set")
        return self._flag

    isSet = is_set

    def set(self):
        s = _sched_or_none()
        if s is not None and not s.aborting:
            s.yield_point("event.set")
        self._flag = True

    def clear(self):
        s = _sched_or_none()
        if s is not None and not s.aborting:
            s.yield_point("event.clear")
        self._flag = False

    def wait(self, timeout=None):
        s = _sched_or_none()
        if s is None:
            if self._flag:
                return True
            if timeout is not None:
                return self._flag
            raise HarnessError("unmanaged thread would block on a managed Event")
        s.yield_point("event.wait")
        if self._flag:
            return True
        s.block(lambda: self._flag, timeout, "Event")
        return self._flag


class MCondition:
    def __init__(self, lock=None):
        if lock is None:
            lock = MRLock()
        self._lock = lock
        self.acquire = lock.acquire
        self.release = lock.release
        self._waiters: collections.deque = collections.deque()

    def __enter__(self):
        return self._lock.__enter__()

    def __exit__(self, *a):
        return self._lock.__exit__(*a)

    def _release_save(self):
        if hasattr(self._lock, "_release_save"):
            return self._lock._release_save()
        self._lock.release()
        return None

    def _acquire_restore(self, st):
        if hasattr(self._lock, "_acquire_restore"):
            self._lock._acquire_restore(st)
        else:
            self._lock.acquire()

    def wait(self, timeout=None):
        s = _sched_or_none()
        if s is None:
            raise HarnessError("unmanaged thread would wait on a managed Condition")
        token = [False]
        self._waiters.append(token)
        st = self._release_save()
        try:
            if s.aborting:
                raise SchedAbort()
            s.block(lambda: token[0], timeout, "Condition")
            return token[0]
        finally:
            if not token[0]:
                try:
                    self._waiters.remove(token)
                except ValueError:
                    pass
            if s.aborting:
                # unwinding: take the lock back without blocking (nobody else runs concurrently)
                if isinstance(self._lock, MRLock):
                    self._lock._owner, self._lock._count = st
                elif isinstance(self._lock, MLock):
                    self._lock._locked = True
            else:
                self._acquire_restore(st)

    def wait_for(self, predicate, timeout=None):
        s = _sched_or_none()
        end = None if timeout is None else s.now + timeout
        r = predicate()
        while not r:
            if end is not None:
                left = end - s.now
                if left <= 0:
                    break
                self.wait(left)
            else:
                self.wait()
            r = predicate()
        return r

    def notify(self, n=1):
        k = 0
        while self._waiters and k < n:
            self._waiters.popleft()[0] = True
            k += 1
        s = _sched_or_none()
        if s is not None and not s.aborting and k:
            s.yield_point("cond.notify")

    def notify_all(self):
        self.notify(len(self._waiters))

    notifyAll = notify_all


class MSemaphore:
    def __init__(self, value=1):
        if value < 0:
            raise ValueError("semaphore initial value must be >= 0")
        self._value = value

    def acquire(self, blocking=True, timeout=None):
        s = _sched_or_none()
        if s is None:
            if self._value > 0:
                self._value -= 1
                return True
            if not blocking or timeout is not None:
                return False
            raise HarnessError("unmanaged thread would block on a managed Semaphore")
        s.yield_point("sem.acquire")
        if self._value <= 0:
            if not blocking:
                return False
            if not s.block(lambda: self._value > 0, timeout, "Semaphore"):
                return False
        self._value -= 1
        return True

    def release(self, n=1):
        self._value += n
        s = _sched_or_none()
        if s is not None and not s.aborting and s.yield_on_release:
            s.yield_point("sem.release")

    __enter__ = acquire

    def __exit__(self, *a):
        self.release()


class MBoundedSemaphore(MSemaphore):
    def __init__(self, value=1):
        super().__init__(value)
        self._initial = value

    def release(self, n=1):
        if self._value + n > self._initial:
            raise ValueError("Semaphore released too many times")
        super().release(n)


class MQueue:
    """queue.Queue (FIFO, optional maxsize)."""

    def __init__(self, maxsize=0):
        self.maxsize = maxsize
        self.queue: collections.deque = collections.deque()
        self.unfinished_tasks = 0

    def __class_getitem__(cls, item):
        return cls

    def qsize(self):
        return len(self.queue)

    def empty(self):
        s = _sched_or_none()
        if s is not None and not s.aborting:
            s.yield_point("queue.empty")
        return not self.queue

    def full(self):
        return 0 < self.maxsize <= len(self.queue)

    def put(self, item, block=True, timeout=None):
        s = _sched_or_none()
        if s is not None and not s.aborting:
            s.yield_point("queue.put")
        if self.maxsize > 0 and len(self.queue) >= self.maxsize:
            if not block or s is None:
                raise _queue_mod.Full
            if not s.block(lambda: len(self.queue) < self.maxsize, timeout, "Queue.put"):
                raise _queue_mod.Full
        self.queue.append(item)
        self.unfinished_tasks += 1

    def put_nowait(self, item):
        return self.put(item, block=False)

    def get(self, block=True, timeout=None):
        s = _sched_or_none()
        if s is None:
            if self.queue:
                return self.queue.popleft()
            raise _queue_mod.Empty
        s.yield_point("queue.get")
        if not self.queue:
            if not block:
                raise _queue_mod.Empty
            if timeout is not None and timeout < 0:
                raise ValueError("'timeout' must be a non-negative number")
            if not s.block(lambda: bool(self.queue), timeout, "Queue.get"):
                raise _queue_mod.Empty
        return self.queue.popleft()

    def get_nowait(self):
        return self.get(block=False)

    def task_done(self):
        if self.unfinished_tasks <= 0:
            raise ValueError("task_done() called too many times")
        self.unfinished_tasks -= 1

    def join(self):
        s = _sched_or_none()
        if s is None:
            raise HarnessError("unmanaged join on managed Queue")
        s.block(lambda: self.unfinished_tasks == 0, None, "Queue.join")


class MSimpleQueue:
    def __init__(self):
        self._q: collections.deque = collections.deque()

    def __class_getitem__(cls, item):
        return cls

    def put(self, item, block=True, timeout=None):
        s = _sched_or_none()
        if s is not None and not s.aborting:
            s.yield_point("queue.put")
        self._q.append(item)

    put_nowait = put

    def get(self, block=True, timeout=None):
        s = _sched_or_none()
        if s is None:
            if self._q:
                return self._q.popleft()
            raise _queue_mod.Empty
        s.yield_point("queue.get")
        if not self._q:
            if not block:
                raise _queue_mod.Empty
            if not s.block(lambda: bool(self._q), timeout, "SimpleQueue.get"):
                raise _queue_mod.Empty
        return self._q.popleft()

    def get_nowait(self):
        return self.get(block=False)

    def empty(self):
        return not self._q

    def qsize(self):
        return len(self._q)


class MThread:
    _counter = 0

    def __init__(self, group=None, target=None, name=None, args=(), kwargs=None, *, daemon=None):
        MThread._counter += 1
        self._target = target
        self._args = args
        self._kwargs = kwargs or {}
        self.name = name or f"MThread-{MThread._counter}"
        self.daemon = bool(daemon)
        self._task: Task | None = None
        self._started = False
        self.ident = None
        self.native_id = None

    def run(self):
        if self._target is not None:
            self._target(*self._args, **self._kwargs)

    def start(self):
        s = _sched_or_none()
        if s is None:
            raise HarnessError("managed Thread started from an unmanaged thread")
        if self._started:
            raise RuntimeError("threads can only be started once")
        self._started = True
        if s.aborting:
            raise SchedAbort()
        self._task = s.spawn(self.run, self.name, "thread")
        self.ident = self._task.id + 10_000
        s.yield_point("thread.start")

    def join(self, timeout=None):
        s = _sched_or_none()
        if s is None:
            return
        if self._task is None:
            raise RuntimeError("cannot join thread before it is started")
        s.yield_point("join")
        s.block(lambda: self._task.state == "done", timeout, "Thread.join")

    def is_alive(self):
        return self._task is not None and self._task.state != "done"

    def setDaemon(self, d):
        self.daemon = d

    def isDaemon(self):
        return self.daemon

    def getName(self):
        return self.name


# ----------------------------------------------------------------------------- dispatchers


def _disp(real, managed_cls):
    def factory(*a, **k):
        return managed_cls(*a, **k) if managed() else real(*a, **k)

    factory.__name__ = getattr(real, "__name__", "factory")
    factory._vf_real = real
    factory._vf_managed = managed_cls
    return factory


class _ThreadDispatch(_real.Thread):
    """threading.Thread replacement: subclassable as before; instantiating it from a managed task yields MThread."""

    def __new__(cls, *a, **k):
        if cls is _ThreadDispatch and managed():
            return MThread(*a, **k)
        return object.__new__(cls)


class _QueueDispatchMeta(type):
    def __call__(cls, *a, **k):
        if cls is _QueueDispatch and managed():
            return MQueue(*a, **k)
        return super().__call__(*a, **k)


class _QueueDispatch(_real.Queue, metaclass=_QueueDispatchMeta):
    pass


def _v_time():
    s = _sched_or_none()
    return s.now if s is not None else _real.time()


def _v_monotonic():
    s = _sched_or_none()
    return s.now if s is not None else _real.monotonic()


def _v_sleep(secs):
    s = _sched_or_none()
    if s is None:
        return _real.sleep(secs)
    s.sleep(secs)


def _v_random():
    s = _sched_or_none()
    return s.next_random() if s is not None else _real.random()


class _VDateTimeMeta(type):
    """isinstance/issubclass against the shim behave as against the real class: the SDK (and changes to it) may test
    values that were built with the real `datetime` elsewhere."""

    def __instancecheck__(cls, obj):
        return isinstance(obj, _dt.datetime)

    def __subclasscheck__(cls, sub):
        return issubclass(sub, _dt.datetime)


class VDateTime(_dt.datetime, metaclass=_VDateTimeMeta):
    @classmethod
    def now(cls, tz=None):
        s = _sched_or_none()
        if s is None:
            return _real.datetime.now(tz)
        return _real.datetime.fromtimestamp(s.now, tz)

    @classmethod
    def utcnow(cls):
        s = _sched_or_none()
        if s is None:
            return _real.datetime.utcnow()
        return _real.datetime.fromtimestamp(s.now, _dt.timezone.utc).replace(tzinfo=None)


def _shim_datetime_module():
    m = types.ModuleType("datetime")
    for k in dir(_dt):
        if not k.startswith("__"):
            setattr(m, k, getattr(_dt, k))
    m.datetime = VDateTime
    return m


_installed = False
cf_base = None
cf_thread = None
MThreadPoolExecutor = None


def _clone_concurrent_futures():
    """Private copy of CPython's own concurrent/futures/_base.py and thread.py, executed in fresh modules.
    They import `threading`, `queue`, `time` - which carry our dispatchers - so Future/ThreadPoolExecutor
    semantics (done-callbacks, worker reuse, shutdown, cancel) are the interpreter's own."""
    global cf_base, cf_thread, MThreadPoolExecutor
    import concurrent.futures._base as rb
    import concurrent.futures.thread as rt

    base_src = open(rb.__file__).read()
    thr_src = open(rt.__file__).read()
    cf_base = types.ModuleType("vf_cf_base")
    cf_base.__file__ = rb.__file__ + "#vfclone"
    sys.modules["vf_cf_base"] = cf_base
    exec(compile(base_src, cf_base.__file__, "exec"), cf_base.__dict__)
    # exceptions must be the real ones (user/SDK code catches concurrent.futures.CancelledError etc.)
    for n in ("CancelledError", "TimeoutError", "InvalidStateError", "BrokenExecutor", "Error"):
        setattr(cf_base, n, getattr(rb, n))
    thr_src = thr_src.replace("from concurrent.futures import _base", "import vf_cf_base as _base")
    thr_src = thr_src.replace("threading._register_atexit(_python_exit)", "pass  # vf: no atexit hook for the clone")
    lines = []
    skip = 0
    for line in thr_src.splitlines():
        if line.startswith("if hasattr(os, 'register_at_fork'):"):
            skip = 1
            lines.append("if False:")
            continue
        lines.append(line)
    thr_src = "\n".join(lines)
    cf_thread = types.ModuleType("vf_cf_thread")
    cf_thread.__file__ = rt.__file__ + "#vfclone"
    sys.modules["vf_cf_thread"] = cf_thread
    exec(compile(thr_src, cf_thread.__file__, "exec"), cf_thread.__dict__)
    MThreadPoolExecutor = cf_thread.ThreadPoolExecutor


def install() -> None:
    global _installed
    if _installed:
        return
    _installed = True
    import concurrent.futures as cf
    import concurrent.futures.thread as cft

    _threading.Lock = _disp(_real.Lock, MLock)
    _threading.RLock = _disp(_real.RLock, MRLock)
    _threading.Event = _disp(_real.Event, MEvent)
    _threading.Condition = _disp(_real.Condition, MCondition)
    _threading.Semaphore = _disp(_real.Semaphore, MSemaphore)
    _threading.BoundedSemaphore = _disp(_real.BoundedSemaphore, MBoundedSemaphore)
    _threading.Thread = _ThreadDispatch
    _queue_mod.Queue = _QueueDispatch
    _queue_mod.SimpleQueue = _disp(_real.SimpleQueue, MSimpleQueue)
    _time.time = _v_time
    _time.monotonic = _v_monotonic
    _time.sleep = _v_sleep
    _random_mod.random = _v_random
    _clone_concurrent_futures()

    real_tpe = cft.ThreadPoolExecutor

    class _TPEMeta(type(real_tpe)):
        def __call__(cls, *a, **k):
            if cls is TPEDispatch and managed():
                return MThreadPoolExecutor(*a, **k)
            return super().__call__(*a, **k)

    class TPEDispatch(real_tpe, metaclass=_TPEMeta):
        pass

    TPEDispatch.__name__ = "ThreadPoolExecutor"
    cf.ThreadPoolExecutor = TPEDispatch
    cft.ThreadPoolExecutor = TPEDispatch
    globals()["_TPEDispatch"] = TPEDispatch
    globals()["_real_tpe"] = real_tpe
    rebind_sdk()


_REBIND = None


def rebind_sdk(prefix: str = "aws_durable_execution_sdk_python") -> int:
    """Make already imported SDK modules use the dispatchers whatever their import style
    (`from threading import Lock` binds the object at import time)."""
    import concurrent.futures as cf

    table = {
        id(_real.Lock): _threading.Lock,
        id(_real.RLock): _threading.RLock,
        id(_real.Event): _threading.Event,
        id(_real.Condition): _threading.Condition,
        id(_real.Semaphore): _threading.Semaphore,
        id(_real.BoundedSemaphore): _threading.BoundedSemaphore,
        id(_real.Thread): _threading.Thread,
        id(_real.Queue): _queue_mod.Queue,
        id(_real.SimpleQueue): _queue_mod.SimpleQueue,
        id(_real.time): _time.time,
        id(_real.monotonic): _time.monotonic,
        id(_real.sleep): _time.sleep,
        id(_real.random): _random_mod.random,
        id(globals().get("_real_tpe")): cf.ThreadPoolExecutor,
        id(_real.datetime): VDateTime,
    }
    n = 0
    shim_dt = None
    for name, mod in list(sys.modules.items()):
        if mod is None or not name.startswith(prefix):
            continue
        for k, v in list(vars(mod).items()):
            if id(v) in table and v is not table[id(v)] and not k.startswith("__"):
                setattr(mod, k, table[id(v)])
                n += 1
            elif v is _dt:
                if shim_dt is None:
                    shim_dt = _shim_datetime_module()
                setattr(mod, k, shim_dt)
                n += 1
    return n


# ----------------------------------------------------------------------------- line mode

_TOOL = 4
_line_registered = False
_line_codes: set = set()


def _code_objects_of_module(mod):
    seen = set()
    out = []

    def walk_code(co):
        if co in seen:
            return
        seen.add(co)
        out.append(co)
        for c in co.co_consts:
            if isinstance(c, types.CodeType):
                walk_code(c)

    fn = getattr(mod, "__file__", None)
    for v in vars(mod).values():
        if isinstance(v, types.FunctionType) and v.__code__.co_filename == fn:
            walk_code(v.__code__)
        elif isinstance(v, type) and getattr(v, "__module__", None) == mod.__name__:
            for a in vars(v).values():
                f = a
                if isinstance(a, (staticmethod, classmethod)):
                    f = a.__func__
                if isinstance(a, property):
                    for g in (a.fget, a.fset, a.fdel):
                        if g is not None:
                            walk_code(g.__code__)
                    continue
                if isinstance(f, types.FunctionType):
                    walk_code(f.__code__)
    return out


def enable_line_mode(modules) -> int:
    """Every source line of the given (already imported) modules becomes a yield point for managed tasks."""
    global _line_registered
    mon = sys.monitoring
    if not _line_registered:
        try:
            mon.use_tool_id(_TOOL, "vf-detsched")
        except ValueError:
            pass

        def on_line(code, lineno):
            t = getattr(_tl, "task", None)
            if t is None:
                return None
            s = t.sched
            if s.aborting or not getattr(s, "line_mode", False):
                return None
            lf = s.line_files
            if lf is not None and code.co_filename not in lf:
                return None  # registered by an earlier case of this process, not part of this run
            if getattr(_tl, "in_line", False):
                return None
            _tl.in_line = True
            t.last_line = (code.co_name, lineno)
            try:
                s.yield_point("line")
            finally:
                _tl.in_line = False
            return None

        mon.register_callback(_TOOL, mon.events.LINE, on_line)
        _line_registered = True
    n = 0
    for m in modules:
        for co in _code_objects_of_module(m):
            if co not in _line_codes:
                mon.set_local_events(_TOOL, co, mon.events.LINE)
                _line_codes.add(co)
                n += 1
    return n


# ----------------------------------------------------------------------------- exhaustive exploration


def explore_all(run_once: Callable[[Chooser], Any], *, max_runs: int = 200_000):
    """Stateless DFS over all schedules: run_once(chooser) must build a fresh Scheduler with that chooser, run
    the (deterministic) scenario and return (scheduler, result). Yields (scheduler, result) per schedule."""
    prefix: list[int] = []
    runs = 0
    while True:
        ch = Trace(prefix, SeqPreempt())
        # SeqPreempt fallback = index of current if enabled else 0; to enumerate, force fallback to 0
        ch.fb = _Zero()
        sched, res = run_once(ch)
        runs += 1
        yield sched, res
        tr, br = sched.trace, sched.branching
        i = len(tr) - 1
        while i >= 0 and tr[i] + 1 >= br[i]:
            i -= 1
        if i < 0 or runs >= max_runs:
            return
        prefix = tr[:i] + [tr[i] + 1]


class _Zero(Chooser):
    def choose(self, enabled, cur, step):
        return 0


class BoundedTrace(Chooser):
    """Canonical-order trace for context-bounded enumeration: option 0 = keep the current task if it is enabled
    (else the lowest id), options 1.. = the other enabled tasks by id. Records (choice, n, cur_enabled)."""

    def __init__(self, prefix=()):
        self.prefix = list(prefix)
        self.rec: list[tuple[int, int, bool]] = []

    def choose(self, enabled, cur, step):
        cur_en = cur is not None and cur in enabled
        order = ([cur] if cur_en else []) + [t for t in enabled if t is not cur or not cur_en]
        i = len(self.rec)
        k = self.prefix[i] if i < len(self.prefix) else 0
        k = min(k, len(order) - 1)
        self.rec.append((k, len(order), cur_en))
        return enabled.index(order[k])


def explore_bounded(run_once: Callable[[Chooser], Any], max_preempt: int, *, max_runs: int = 500_000):
    """All schedules with at most `max_preempt` preemptions (switching away from a task that could continue).
    max_preempt=None: all schedules. Yields run_once's result per schedule; returns when the space is exhausted
    (the generator's .exhausted attribute is not available; callers count runs against max_runs)."""
    prefix: list[int] = []
    runs = 0
    while True:
        ch = BoundedTrace(prefix)
        res = run_once(ch)
        runs += 1
        yield res
        rec = ch.rec
        cost = [0]
        for k, n, cur_en in rec:
            cost.append(cost[-1] + (1 if (k > 0 and cur_en) else 0))
        i = len(rec) - 1
        nxt = None
        while i >= 0:
            k, n, cur_en = rec[i]
            if k + 1 < n:
                c = cost[i] + (1 if cur_en else 0)
                if max_preempt is None or c <= max_preempt:
                    nxt = [r[0] for r in rec[:i]] + [k + 1]
                    break
            i -= 1
        if nxt is None or runs >= max_runs:
            return
        prefix = nxt


class LinePreempt(Chooser):
    """Non-preempting schedule, except that the task executing the k-th line-level yield point is demoted for the rest
    of the run (it only runs when nothing else can). Enumerating k gives every 'one long preemption at a source line'
    schedule - the shape of most check-then-act races - in O(lines) runs. Needs Scheduler.on_yield = chooser.on_yield."""

    def __init__(self, k: int, kinds=("line",), order: str = "low", stall: float = 0.0):
        self.k = k
        self.stall = stall  # > 0: the preempted task additionally sleeps that long (virtual) at the chosen line
        self.order = order  # which runnable task goes first when the current one cannot continue: "low" / "high" id, or "rand:<seed>"
        self._rnd = _random_mod.Random(int(order.split(":")[1]) * 100003 + k) if order.startswith("rand") else None
        self.kinds = set(kinds)
        self.n = 0
        self.demoted: set[int] = set()
        self.total = 0

    def on_yield(self, sched, task, kind):
        if kind in self.kinds:
            if self.n == self.k:
                self.demoted.add(task.id)
                if self.stall:
                    task.pending_stall = self.stall
                self.where = (task.name, getattr(task, "last_line", None), round(sched.rel, 3))
            self.n += 1
            self.total = self.n

    def choose(self, enabled, cur, step):
        pref = [t for t in enabled if t.id not in self.demoted]
        pool = pref or enabled
        if cur is not None and cur in pool:
            return enabled.index(cur)
        if self._rnd is not None:
            return enabled.index(pool[self._rnd.randrange(len(pool))])
        return enabled.index(pool[0] if self.order == "low" else pool[-1])
