"""Coverage-guided stage: drive a Hypothesis property through atheris (libFuzzer).

atheris is optional: it is installed by setup_cmd into /verif/.deps from the offline wheelhouse when a
wheel matching /venv's interpreter exists. If it cannot be imported the stage is skipped with a note.
"""
from __future__ import annotations

import os
import sys


def run_atheris_on_hypothesis(prop, include: list[str], runs: int, seed: int) -> str:
    try:
        import atheris  # type: ignore
    except Exception as e:  # noqa: BLE001
        return f"skipped (atheris not importable: {type(e).__name__})"
    import importlib
    import tempfile

    # instrument the modules under test (re-import under instrumentation)
    try:
        with atheris.instrument_imports(include=include):
            for m in include:
                if m in sys.modules:
                    importlib.reload(sys.modules[m])
                else:
                    importlib.import_module(m)
    except Exception as e:  # noqa: BLE001
        return f"skipped (instrumentation failed: {e!r})"
    corpus = tempfile.mkdtemp(prefix="c-atheris-")
    argv = [sys.argv[0], f"-runs={runs}", f"-seed={seed % (2**31) or 1}", "-max_len=2048", "-verbosity=0", corpus]
    # libFuzzer calls exit() at the end of -runs; run it in a forked child so the shard survives
    pid = os.fork()
    if pid == 0:
        try:
            devnull = os.open(os.devnull, os.O_WRONLY)
            os.dup2(devnull, 2)
            atheris.Setup(argv, prop.hypothesis.fuzz_one_input)
            atheris.Fuzz()
        finally:
            os._exit(0)
    _, status = os.waitpid(pid, 0)
    import shutil

    shutil.rmtree(corpus, ignore_errors=True)
    return f"ran {runs} libFuzzer iterations in a child process (exit status {status}); violations in the child abort it"
