"""E4 monitors - oracles over the recorded history of one execution (ExecResult). Each appends violations tagged
with the property it decides; a check module reports only its own property's violations."""
from __future__ import annotations

import json

from .simbackend import TERMINAL
from .values import teq, to_tagged, from_tagged
from .wfgen import program_paths

INVOCATION_ERRORS = {"StepInterruptedError", "InvocationError", "BotoClientError", "CheckpointError", "GetExecutionStateError"}


def analyse(run, case) -> None:
    stmts = dict(program_paths(case["prog"]))
    mon_c01(run, case, stmts)
    mon_c02(run, case, stmts)
    mon_c03(run, case, stmts)
    mon_c04(run, case, stmts)
    mon_c08(run, case, stmts)
    mon_c10(run, case, stmts)
    mon_c11(run, case, stmts)
    mon_c12(run, case, stmts)
    mon_c13(run, case, stmts)
    mon_c14(run, case, stmts)
    mon_c07(run, case, stmts)
    mon_c09_items(run, case, stmts)


# ------------------------------------------------------------------------------------------------ C01


def mon_c01(run, case, stmts):
    for e in run.entries:
        st = e["status"]
        if st in TERMINAL:
            if e["kind"] in ("child", "branch") and e["replay_children"]:
                continue
            run.v("C01", "reexecuted_completed", e["kind"],
                  f"{e['path']}: user function entered in invocation {e['inv']} although the backend already holds {st}")
    # recorded outcome is what later calls deliver (leaf ground truth)
    for o in run.obs:
        s = stmts.get(o["path"])
        if s is None or s["op"] != "step" or o["out"] != "value":
            continue
        beh = s["beh"]
        if beh["kind"] in ("ret", "fail_then_ret") and s.get("serdes") != "json":
            want = from_tagged(beh["v"])
            if not teq(want, o["value"]):
                run.v("C01", "wrong_value_delivered", "step", f"{o['path']} inv {o['inv']}: delivered {o['value']!r}, the step's function returns {want!r}")
        if beh["kind"] == "always_fail":
            run.v("C01", "wrong_value_delivered", "step", f"{o['path']} inv {o['inv']}: a step that always fails delivered a value {o['value']!r}")


# ------------------------------------------------------------------------------------------------ C02


def _same_outcome(a, b):
    if a["out"] != b["out"]:
        return False
    if a["out"] == "value":
        return teq(a["value"], b["value"])
    return a["exc"] == b["exc"] and a["msg"] == b["msg"]


def _known_pattern_diff(a, b):
    """Compare two delivered values structurally. Returns (equal_except_pattern, pattern_seen): the values are equal
    except that, inside batch results, items STARTED in `a` are finished in `b` (and the completion reason may differ)."""
    if hasattr(a, "all") and hasattr(b, "all"):
        xs, ys = list(a.all), list(b.all)
        if len(xs) != len(ys):
            return False, False
        seen = False
        for x, y in zip(xs, ys):
            if x.status.value == "STARTED" and y.status.value in ("SUCCEEDED", "FAILED"):
                seen = True
                continue
            if x.status != y.status or not teq(x.error, y.error):
                return False, False
            ok, s2 = _known_pattern_diff(x.result, y.result)
            if not ok:
                return False, False
            seen = seen or s2
        if not seen and a.completion_reason != b.completion_reason:
            return False, False
        return True, seen
    if isinstance(a, (list, tuple)) and type(a) is type(b) and len(a) == len(b):
        seen = False
        for x, y in zip(a, b):
            ok, s2 = _known_pattern_diff(x, y)
            if not ok:
                return False, False
            seen = seen or s2
        return True, seen
    return teq(a, b), False


def replay_children_started_item_pattern(run, path, first, later) -> bool:
    """True iff `later` differs from `first` only by batch items (at any nesting depth) that were STARTED in the first
    result and are finished in the rebuilt one, and a ReplayChildren context is involved (the recorded known finding of
    C09, see known_findings.json)."""
    b = run.backend
    if not any(o.get("ReplayChildren") and (o.get("_path") == path or str(o.get("_path", "")).startswith(path + "/")) for o in b.ops.values()):
        return False
    ok, seen = _known_pattern_diff(first, later)
    return ok and seen


def mon_c02(run, case, stmts):
    first: dict = {}
    for o in run.obs:
        if o["out"] not in ("value", "exc") or o["kind"] == "create_callback":
            continue
        if o["out"] == "exc" and o["exc"] in INVOCATION_ERRORS:
            continue
        p = o["path"]
        if p not in first:
            first[p] = o
            continue
        f = first[p]
        if not _same_outcome(f, o):
            kind = "exception_class_diverges" if (f["out"] == "exc" and o["out"] == "exc" and f["exc"] != o["exc"]) else "replayed_outcome_differs"
            site = o["kind"] + (":check-raised" if (o["kind"] == "wfcond" and f["out"] == "exc") else "")
            if o["kind"] in ("map", "parallel", "child") and f["out"] == "value" and o["out"] == "value" and replay_children_started_item_pattern(run, p, f["value"], o["value"]):
                site = o["kind"] + ":replay-children:started-item-finished-before-parent-record"
            run.v("C02", kind, site, f"{p}: first completion (inv {f['inv']}) delivered {_fmt(f)}, invocation {o['inv']} delivered {_fmt(o)}")


def _fmt(o):
    if o["out"] == "value":
        return f"value {o['value']!r} ({type(o['value']).__name__})"
    return f"{o['exc']}({o['msg']!r})"


def final_outcome(run):
    f = run.final
    if f is None:
        return None
    if f["status"] == "SUCCEEDED":
        return ("SUCCEEDED", f.get("result"))
    if f["status"] == "FAILED":
        e = f.get("error") or {}
        return ("FAILED", e.get("ErrorType"), e.get("ErrorMessage"))
    return (f["status"], f.get("exc"))


# ------------------------------------------------------------------------------------------------ C03


def mon_c03(run, case, stmts):
    b = run.backend
    # a checkpoint failure is not an outcome user code may handle: it must not be catchable by `except Exception`
    for o in run.obs:
        if o["kind"] == "try" and o["out"] == "caught" and o.get("exc") in ("BackgroundThreadError", "OrphanedChildException"):
            run.v("C03", "checkpoint_failure_caught_by_user_code", o["exc"],
                  f"{o['path']} (invocation {o['inv']}): `except Exception` in user code caught {o['exc']}({o.get('msg', '')[:80]!r}) and the workflow carried on without the record being accepted")
    # create_callback returns only an id the backend issued in an accepted START
    for c in run.callback_ids:
        if c.get("via"):
            continue
        if c["backend_id"] is None or c["id"] != c["backend_id"]:
            run.v("C03", "callback_id_not_backend_issued", "create_callback", f"{c['path']}: returned id {c['id']!r}, backend issued {c['backend_id']!r}")
    # PENDING only after the wake record was accepted: covered by the park check (tagged C07); mirror for C03
    for v in list(run.violations):
        if v["property"] == "C07" and v["kind"] in ("suspended_without_record", "suspended_on_unarmed_operation"):
            run.v("C03", "pending_before_wake_record", v["site"], v["detail"])
    # large final result: EXECUTION record accepted before the wrapper reports an empty payload
    for inv in run.invocations:
        out = inv.get("output")
        if isinstance(out, dict) and out.get("Status") in ("SUCCEEDED", "FAILED"):
            empty = (out.get("Status") == "SUCCEEDED" and out.get("Result") == "") or (out.get("Status") == "FAILED" and "Error" not in out)
            if empty and b.closed is None:
                run.v("C03", "empty_payload_without_execution_record", out["Status"], "wrapper reported a terminal status with an empty payload but no EXECUTION result record was accepted")
    # success never reported when a record was never accepted: every value observed has a terminal record (inline check)
    # and the final SUCCEEDED requires that no fault swallowed a sync checkpoint: checked by C06


# ------------------------------------------------------------------------------------------------ C04


def mon_c04(run, case, stmts):
    seen: dict = {}
    for e in run.entries:
        s = stmts.get(e["path"])
        if s is None or s["op"] != "step" or s.get("sem") != "most" or e["kind"] != "step":
            continue
        att = e["attempt"] if e["attempt"] is not None else 0
        key = (e["path"], att)
        seen.setdefault(key, []).append(e)
        if e["status"] != "STARTED":
            site = "first-attempt" if att == 0 else "retry-attempt"
            run.v("C04", "entered_without_recorded_start", site,
                  f"{e['path']}: at-most-once function entered (attempt index {att}, invocation {e['inv']}) while the backend record is {e['status']} - the start of this attempt is not durably recorded")
    for (p, att), es in seen.items():
        if len(es) > 1:
            site = "first-attempt" if att == 0 else "retry-attempt"
            run.v("C04", "attempt_entered_twice", site,
                  f"{p}: at-most-once function entered {len(es)} times for attempt index {att} (invocations {[x['inv'] for x in es]})")
    # an attempt found started-but-unfinished is judged "according to the retry strategy": the strategy is asked about
    # THAT attempt (1 + retries recorded so far) and its answer is what gets recorded
    b = run.backend
    for c in run.strategy_calls:
        if c.get("wfc") or c["err"] != "StepInterruptedError":
            continue
        s = stmts.get(c["path"])
        if s is None or s.get("sem") != "most":
            continue
        log = [e for e in b.log if b.path_of.get(e["upd"]["Id"]) == c["path"]]
        want = 1 + sum(1 for e in log if e["upd"]["Action"] == "RETRY" and e.get("clk", 0) < c["clk"])
        if c["attempts_made"] != want:
            run.v("C04", "interrupted_attempt_judged_as_another_attempt", "first-attempt" if want == 1 else "retry-attempt",
                  f"{c['path']}: attempt {want} was found interrupted (invocation {c['inv']}) but the retry strategy was asked about attempt {c['attempts_made']}")


# ------------------------------------------------------------------------------------------------ C07 (liveness part)


def mon_c07(run, case, stmts):
    for inv in run.invocations:
        if inv.get("outcome") == "step_cap" and inv.get("steps_since_time_moved", 0) > 0.6 * inv.get("step_cap", 10**9):
            # not a budget problem: the invocation executed hundreds of thousands of scheduling steps without any task
            # ever waiting for time to pass - it spins without blocking
            run.v("C07", "invocation_spins_without_blocking", "step_cap",
                  f"invocation {inv['inv']}: {inv.get('steps_since_time_moved')} scheduling steps at one virtual instant (cap {inv.get('step_cap')}); tasks {inv.get('deadlock_info')}")
    # a branch parked on an external party only (no timer) is not run again inside the same invocation
    last_park: dict = {}
    for o in run.obs:
        if o["out"] == "suspend" and o["kind"] in ("callback_result", "wait_for_callback", "invoke"):
            s_ = stmts.get(o["path"].split("#")[0]) or {}
            if not (s_.get("timeout") or s_.get("heartbeat")):  # nothing but the external party can wake it
                last_park.setdefault((o["inv"], parent_path(o["path"])), o)  # the first time it parked there
    seen_entry: dict = {}
    for e in run.entries:
        if e["kind"] != "branch":
            continue
        k = (e["inv"], e["path"])
        if k in seen_entry and k in last_park and last_park[k]["clk"] < e["clk"]:
            o = last_park[k]
            # not when an ENCLOSING branch (which had its own wake source, e.g. a sibling's timer) was run again in
            # between: then the whole inner map/parallel, parked branches included, is legitimately traversed again
            anc, outer_rerun = parent_path(e["path"]), False
            while anc:
                if any(x["kind"] == "branch" and x["inv"] == e["inv"] and x["path"] == anc and o["clk"] < x["clk"] < e["clk"] for x in run.entries):
                    outer_rerun = True
                    break
                anc = parent_path(anc)
            if outer_rerun:
                seen_entry[k] = e
                continue
            op = run.backend.ops.get(run.backend.by_path.get(o["path"].split("#")[0], ""), {})
            if op.get("Status") == "STARTED":
                run.v("C07", "parked_branch_rerun_without_wake_source", o["kind"],
                      f"{e['path']}: branch body entered again in invocation {e['inv']} although it had parked on {o['path']} ({o['kind']}, no timer) and the backend still holds that operation as STARTED")
                break
        seen_entry[k] = e
    # a map/parallel call suspends only when every branch has finished or parked: none of its branch bodies is executing
    for o in run.obs:
        if o["kind"] in ("map", "parallel") and o["out"] == "suspend" and o.get("active_under"):
            run.v("C07", "operation_suspended_while_its_branch_is_running", o["kind"],
                  f"{o['path']} suspended to its caller in invocation {o['inv']} while branch bodies {o['active_under']} were still executing: they run on behind the suspension")
    # once a map/parallel call has suspended (raised the suspension to its caller), none of its branches is started
    # any more in that invocation - unless the enclosing branch itself is run again (then a new call is made)
    for o in run.obs:
        if o["kind"] not in ("map", "parallel") or o["out"] != "suspend":
            continue
        for e in run.entries:
            if e["kind"] != "branch" or e["inv"] != o["inv"] or e["clk"] <= o["clk"] or parent_path(e["path"]) != o["path"]:
                continue
            anc, outer_rerun = parent_path(o["path"]), False
            while anc:
                if any(x["kind"] == "branch" and x["inv"] == e["inv"] and x["path"] == anc and o["clk"] < x["clk"] <= e["clk"] for x in run.entries):
                    outer_rerun = True
                    break
                anc = parent_path(anc)
            later_call = any(o2["path"] == o["path"] and o2["inv"] == o["inv"] and o["clk"] < o2["clk"] for o2 in run.obs if o2 is not o) and outer_rerun
            if not outer_rerun and not later_call:
                run.v("C07", "branch_started_after_its_operation_suspended", o["kind"],
                      f"{e['path']}: branch body entered (clk {e['clk']}) in invocation {e['inv']} after {o['path']} had already suspended to its caller (clk {o['clk']}): it runs on behind the suspension")
                break
    for inv in run.invocations:
        if inv.get("outcome") == "time_cap":
            # the virtual-time cap is a budget: an invocation that still got records accepted in the last 40 % of its
            # time is slow (e.g. every response paged into dozens of 0.2 s calls), not stuck - inconclusive
            t0, t1 = inv.get("t0", 0.0), inv.get("t1", 0.0)
            late = [a for a in run.backend.api if a["inv"] == inv["inv"] and a.get("kind") == "checkpoint" and a.get("applied") and a.get("updates")
                    and a.get("t_start", 0.0) > t0 + 0.6 * (t1 - t0)]
            if late:
                inv["slow_but_progressing"] = len(late)
                continue
        if inv.get("outcome") in ("deadlock", "time_cap"):
            run.v("C07", "invocation_never_returns", inv["outcome"],
                  f"invocation {inv['inv']} ended in {inv['outcome']}: blocked tasks {inv.get('deadlock_info')}")


# ------------------------------------------------------------------------------------------------ C09 (generic half)


def _cannot_fail(body) -> bool:
    for s in body:
        if s["op"] in ("sleep", "log"):
            continue
        if s["op"] == "step" and s["beh"]["kind"] in ("ret", "big", "ticket") and s.get("serdes") in (None, "json"):
            continue
        return False
    return True


def mon_c09_items(run, case, stmts):
    """Faithful reporting, for every map/parallel of every workflow case: a branch made only of steps that always
    succeed is never reported FAILED, and a SUCCEEDED item of constant steps carries exactly their values."""
    for o in run.obs:
        if o["kind"] not in ("map", "parallel") or o["out"] != "value":
            continue
        s = stmts.get(o["path"])
        br = o["value"]
        if s is None or not hasattr(br, "all"):
            continue
        for it in br.all:
            body = s["body"] if s["op"] == "map" else (s["branches"][it.index] if it.index < len(s["branches"]) else None)
            if body is None or not _cannot_fail(body) or (s.get("pads") and s["pads"][it.index:it.index + 1] not in ([], [0])):
                continue
            stv = it.status.value
            if stv == "FAILED":
                big = any(x["op"] == "step" and x["beh"]["kind"] == "big" for x in body)
                run.v("C09", "item_status_wrong", "FAILED:branch-cannot-fail" + (":large-result" if big else ""),
                      f"{o['path']}[{it.index}] (invocation {o['inv']}): reported FAILED with {it.error.type if it.error else None}({(it.error.message if it.error else '')[:120]!r}) "
                      f"but the branch consists of steps that always succeed")
            elif stv == "SUCCEEDED" and all(x["op"] == "step" and x["beh"]["kind"] == "ret" and not x.get("mutate") and x.get("serdes") is None for x in body) and s.get("cfg", {}).get("serdes") is None:
                want = [from_tagged(x["beh"]["v"]) for x in body]
                if s.get("unwrap") and len(want) == 1:
                    want = want[0]
                if not teq(it.result, want):
                    run.v("C09", "item_result_wrong", "SUCCEEDED:constant-steps", f"{o['path']}[{it.index}] (invocation {o['inv']}): result {it.result!r}, the branch returned {want!r}")


# ------------------------------------------------------------------------------------------------ C08


def parent_path(p: str) -> str | None:
    """Path of the enclosing context operation (None at the root), following the interpreter's path scheme:
    block prefixes are 'root', '<context>', '<batch>/<j>', '<callback>~', '<try>/h'; a try body is '<try>/t'."""
    if "#" in p:
        return p.split("#", 1)[0]
    if p.endswith("/t"):
        return parent_path(p[:-2])
    if "/" not in p:
        return None
    prefix = p.rsplit("/", 1)[0]
    return _ctx_of_block(prefix)


def _ctx_of_block(prefix: str) -> str | None:
    if prefix == "root":
        return None
    if prefix.endswith("~"):
        return parent_path(prefix[:-1])
    if prefix.endswith("/h"):
        return parent_path(prefix[:-2])
    last = prefix.rsplit("/", 1)[-1]
    if last.startswith("T") and last[1:].isdigit():
        # block run by an extra user thread on the same context as the 'threads' statement
        return parent_path(prefix.rsplit("/", 1)[0])
    return prefix


def identity_table(run):
    """path -> set of ids, id -> set of paths, from the arrival log."""
    b = run.backend
    p2i: dict = {}
    i2p: dict = {}
    for e in b.log:
        u = e["upd"]
        if u.get("Type") == "EXECUTION":
            continue
        oid = u["Id"]
        p = b.path_of.get(oid)
        if p is None:
            continue
        p2i.setdefault(p, set()).add(oid)
        i2p.setdefault(oid, set()).add(p)
    return p2i, i2p


def mon_c08(run, case, stmts):
    b = run.backend
    p2i, i2p = identity_table(run)
    for p, ids in p2i.items():
        if len(ids) > 1:
            run.v("C08", "position_has_two_identifiers", _kind_of(stmts, p), f"{p}: recorded under {sorted(i[:10] for i in ids)}")
    # two positions sharing one id show up as a changed Name / ParentId on an existing id
    for v in b.violations:
        if v["kind"] == "identity_field_changed":
            run.v("C08", "identifier_shared_by_two_positions", v["site"].split(":")[-1], v["detail"])
    for oid, op in b.ops.items():
        if op["Type"] == "EXECUTION":
            continue
        if op.get("_path_clash"):
            run.v("C08", "position_has_two_identifiers", op["Type"], f"{op['_path']}: ids {oid[:10]} and {op['_path_clash'][:10]}")
        p = op.get("_path")
        if not p or not p.startswith("root"):
            continue
        pp = parent_path(p)
        want = b.by_path.get(pp) if pp else None
        if pp and want is None:
            continue  # parent never recorded (e.g. lost with a crash): nothing to compare
        got = op.get("ParentId")
        if (want or None) != (got or None):
            run.v("C08", "wrong_parent_link", op["Type"], f"{p}: ParentId {str(got)[:10]} but the enclosing context {pp} is {str(want)[:10]}")


def _kind_of(stmts, p):
    s = stmts.get(p)
    return s["op"] if s else "branch"


# ------------------------------------------------------------------------------------------------ C10


def mon_c10(run, case, stmts):
    b = run.backend
    done_at: dict = {}  # context id -> clk of the hand-over of its completion record
    for h in run.handovers:
        u = h["upd"]
        if u and u["Type"] == "CONTEXT" and u["Action"] in ("SUCCEED", "FAIL") and u["Id"] not in done_at:
            done_at[u["Id"]] = (h["clk"], h["inv"])
    if not done_at:
        return
    from collections import Counter

    delivered_n = Counter((e["upd"]["Id"], e["upd"]["Action"], e["inv"]) for e in b.log)
    handed_n: Counter = Counter()

    def chain(u):
        out = []
        cur = u.get("ParentId")
        seen = set()
        while cur and cur not in seen:
            seen.add(cur)
            out.append(cur)
            cur = b.ops.get(cur, {}).get("ParentId")
        return out

    for h in run.handovers:
        u = h["upd"]
        if not u:
            continue
        if h.get("raised") == "OrphanedChildException":
            continue  # rejected before it was enqueued: never reaches the backend
        key = (u["Id"], u["Action"], h["inv"])
        handed_n[key] += 1
        reached = delivered_n[key] >= handed_n[key]
        if not reached:
            continue
        # position of this update in the backend's arrival order (k-th accepted record with this key)
        arr = [e["n"] for e in b.log if (e["upd"]["Id"], e["upd"]["Action"], e["inv"]) == key]
        my_n = arr[handed_n[key] - 1] if len(arr) >= handed_n[key] else None
        for a in chain(u):
            if a in done_at and done_at[a][1] == h["inv"] and h["clk"] > done_at[a][0]:
                # overlapping hand-over calls are ordered by what the backend saw: a violation only if the record
                # arrived after the ancestor's completion record
                anc_n = next((e["n"] for e in b.log if e["upd"]["Id"] == a and e["upd"]["Action"] in ("SUCCEED", "FAIL")), None)
                if anc_n is None or my_n is None or my_n < anc_n:
                    break
                site = f"{u['Type']}:{u['Action']}"
                run.v("C10", "update_recorded_under_completed_context", site,
                      f"{b.path_of.get(u['Id'], u.get('Name'))}: {u['Action']} handed over (clk {h['clk']}) after ancestor {b.path_of.get(a)} was handed its completion record (clk {done_at[a][0]}) and it reached the backend after that record")
                break
    # arrival order at the backend: the pipeline is first-in first-out, so whatever is delivered after a context's
    # completion record was handed over after it (an update overtaken by the completion record is "recorded under a
    # completed context" just the same)
    comp_n: dict = {}
    for e in b.log:
        u = e["upd"]
        if u["Type"] == "CONTEXT" and u["Action"] in ("SUCCEED", "FAIL") and u["Id"] not in comp_n:
            comp_n[u["Id"]] = (e["n"], e["inv"])
    for e in b.log:
        u = e["upd"]
        for a in chain(u):
            if a in comp_n and comp_n[a][1] == e["inv"] and e["n"] > comp_n[a][0]:
                run.v("C10", "descendant_record_arrived_after_completion_record", f"{u['Type']}:{u['Action']}",
                      f"{b.path_of.get(u['Id'], u.get('Name'))}: {u['Action']} reached the backend (arrival #{e['n']}) after the completion record of its ancestor {b.path_of.get(a)} (arrival #{comp_n[a][0]}) in invocation {e['inv']}")
                break
    # ... and in later invocations: a context completed earlier is replayed from its record (or re-traversed without
    # sending anything), so nothing at all arrives under it any more
    for e in b.log:
        u = e["upd"]
        for a in chain(u):
            if a in comp_n and comp_n[a][1] < e["inv"]:
                run.v("C10", "record_under_context_completed_in_earlier_invocation", f"{u['Type']}:{u['Action']}",
                      f"{b.path_of.get(u['Id'], u.get('Name'))}: {u['Action']} reached the backend in invocation {e['inv']} under {b.path_of.get(a)}, whose completion record arrived in invocation {comp_n[a][1]}")
                break
    # user functions entered in an orphaned branch for an operation first encountered after the completion:
    # the operation's first hand-over of this invocation came after the ancestor's completion and was let through
    first_ho: dict = {}
    for h in run.handovers:
        u = h["upd"]
        if u and (u["Id"], h["inv"]) not in first_ho:
            first_ho[(u["Id"], h["inv"])] = h
    for e in run.entries:
        if e["kind"] not in ("step", "check", "submitter"):
            continue
        oid = b.by_path.get(e["path"])
        fh = first_ho.get((oid, e["inv"]))
        if fh is None or fh["clk"] > e["clk"] or fh.get("raised") == "OrphanedChildException":
            continue
        anc_ids = []
        pp = parent_path(e["path"])
        while pp:
            i = b.by_path.get(pp)
            if i:
                anc_ids.append(i)
            pp = parent_path(pp)
        u0 = fh["upd"]
        my_n = next((x["n"] for x in b.log if x["inv"] == e["inv"] and x["upd"]["Id"] == u0["Id"] and x["upd"]["Action"] == u0["Action"]), None)
        for a in anc_ids:
            if a in done_at and done_at[a][1] == e["inv"] and fh["clk"] > done_at[a][0]:
                # overlapping hand-over calls: the operation began before the completion if its record reached the
                # backend before the completion record did
                anc_n = next((x["n"] for x in b.log if x["upd"]["Id"] == a and x["upd"]["Action"] in ("SUCCEED", "FAIL")), None)
                if anc_n is None or my_n is None or my_n < anc_n:
                    break
                run.v("C10", "orphan_user_function_entered", e["kind"],
                      f"{e['path']}: operation first handed over at clk {fh['clk']} and its user function entered (clk {e['clk']}) after ancestor {b.path_of.get(a)} was handed its completion record (clk {done_at[a][0]})")
                break


# ------------------------------------------------------------------------------------------------ C11


def mon_c11(run, case, stmts):
    for v in run.backend.violations:
        if v["kind"] == "identity_field_changed":
            continue  # judged by C08
        run.v("C11", v["kind"], v["site"], f"inv {v['inv']}: {v['detail']}")
    # the stream as SENT: a batch is never transmitted again once a transmission of it was applied (each of its updates
    # would be a second start / a record after a terminal one), and a consumed checkpoint token is never used again
    applied: dict = {}
    for rec in run.backend.api:
        if rec.get("kind") != "checkpoint":
            continue
        key = (rec["inv"], rec["token"])
        if key in applied:
            prev = applied[key]
            same = [(u.get("Id"), u.get("Action")) for u in prev["updates"]] == [(u.get("Id"), u.get("Action")) for u in rec["updates"]]
            acts = sorted({f"{u.get('Type')}:{u.get('Action')}" for u in rec["updates"]})
            run.v("C11", "batch_sent_again_after_it_was_applied" if same else "consumed_token_used_again", ",".join(acts)[:60] or "empty",
                  f"inv {rec['inv']}: call #{rec['idx']} re-uses token {rec['token']} consumed by applied call #{prev['idx']}; updates {[(u.get('Type'), u.get('Action')) for u in rec['updates']]}")
        elif rec.get("applied"):
            applied[key] = rec


# ------------------------------------------------------------------------------------------------ C12


def mon_c12(run, case, stmts):
    b = run.backend
    by_path: dict = {}
    for c in run.strategy_calls:
        if c.get("wfc"):
            continue
        by_path.setdefault(c["path"], []).append(c)
    crashes_inside = {e["path"] for e in run.entries if e.get("crashed")}
    for p, calls in by_path.items():
        s = stmts.get(p.split("#")[0]) if "#" in p else stmts.get(p)
        op = b.ops.get(b.by_path.get(p if "#" not in p else p, ""))
        # attempts_made must be 1, 2, 3, ... : one more per *recorded* retry
        retries_recorded = 0
        log = [e for e in b.log if b.path_of.get(e["upd"]["Id"]) == p]
        # walk calls and RETRY records in time order
        exp = 1
        for c in calls:
            if c["err"] == "StepInterruptedError":
                # interrupted attempt: counts as an attempt made
                pass
            want = 1 + sum(1 for e in log if e["upd"]["Action"] == "RETRY" and e.get("clk", 0) < c["clk"])
            if c["attempts_made"] != want:
                run.v("C12", "strategy_called_with_wrong_attempt_count", "step",
                      f"{p}: retry strategy consulted with attempts_made={c['attempts_made']} but {want - 1} retries are recorded (expected {want})")
                break
        # every retry decision -> a RETRY record with delay max(1, d), accepted; a decline -> FAIL recorded
        retry_recs = [e for e in log if e["upd"]["Action"] == "RETRY"]
        for e in retry_recs:
            prev = [c for c in calls if c["clk"] < e.get("clk", 0)]
            d = (e["upd"].get("StepOptions") or {}).get("NextAttemptDelaySeconds")
            if not prev or not prev[-1]["retry"]:
                run.v("C12", "retry_without_decision", "step", f"{p}: a RETRY record was accepted although the strategy was not consulted / declined just before")
            elif d != max(1, prev[-1]["delay"]):
                run.v("C12", "retry_delay_mismatch", "step", f"{p}: strategy decided delay {prev[-1]['delay']}, RETRY record carries {d}")
        for e in retry_recs:
            d = (e["upd"].get("StepOptions") or {}).get("NextAttemptDelaySeconds")
            if not isinstance(d, int) or d < 1:
                run.v("C12", "retry_delay_below_one_second", "step", f"{p}: RETRY with NextAttemptDelaySeconds={d!r}")
        if s is not None and s.get("op") == "step" and s.get("retry", {"kind": "none"}) is not None:
            r = s.get("retry", {"kind": "none"})
            mx = r.get("max") if r.get("kind") == "table" else (r.get("cfg") or {}).get("max_attempts") if r.get("kind") == "config" else 1 if r.get("kind") == "none" else None
            if mx is not None and len(retry_recs) > mx - 1:
                run.v("C12", "more_retries_than_max_attempts", "step", f"{p}: {len(retry_recs)} RETRY records with max attempts {mx}")
        outcome_of = {i["inv"]: i.get("outcome") for i in run.invocations}
        # a decline in an invocation that then died before the FAIL record was accepted is legitimately re-decided later
        declined = [c for c in calls if not c["retry"] and outcome_of.get(c["inv"]) in ("FAILED", "SUCCEEDED", "PENDING")]
        if declined and run.final is not None:
            st = op["Status"] if op else None
            if st != "FAILED":
                run.v("C12", "decline_not_recorded", "step", f"{p}: strategy declined but the backend holds {st}")
    # entry counts: absent crashes inside attempts, entries == min(failures + 1, max attempts)
    if run.final is not None and not (case.get("plan") or {}).get("crashes") and not (case.get("plan") or {}).get("faults"):
        for p, s in stmts.items():
            if s["op"] != "step":
                continue
            n = sum(1 for e in run.entries if e["path"] == p and e["kind"] == "step")
            if n == 0:
                continue
            beh, r = s["beh"], s.get("retry", {"kind": "none"})
            if r is None:
                continue  # SDK default preset (jittered); counted by the packaged-strategy half
            if r["kind"] == "table" and not r.get("nonretry"):
                mx = r["max"]
            elif r["kind"] == "none":
                mx = 1
            else:
                continue
            if _reached_repeatedly(p):
                continue
            if beh["kind"] == "ret":
                want = 1
            elif beh["kind"] == "fail_then_ret":
                want = min(beh["k"] + 1, mx)
            elif beh["kind"] == "always_fail":
                want = mx
            else:
                continue
            op = b.ops.get(b.by_path.get(p, ""))
            if op is None or op["Status"] not in TERMINAL:
                continue
            if n != want:
                run.v("C12", "wrong_number_of_attempts", "step", f"{p}: function ran {n} times, expected min(failures+1, max_attempts) = {want}")
    # a retry is durably scheduled before the suspension (mirrors the park check for plain steps)
    for v in list(run.violations):
        if v["property"] == "C07" and v["kind"] == "suspended_on_unarmed_operation" and v["site"].startswith("STEP"):
            pth = v["detail"].split(":", 1)[0]
            if stmts.get(pth, {}).get("op") == "step":
                run.v("C12", "suspended_before_retry_recorded", v["site"], v["detail"])
    # an attempt n+1 is entered only after RETRY n was accepted and its timer fired
    for e in run.entries:
        if e["kind"] != "step":
            continue
        if e["attempt"] and e["status"] not in ("READY", "STARTED"):
            run.v("C12", "reattempt_before_timer", "step", f"{e['path']}: attempt index {e['attempt']} entered while backend status is {e['status']}")
        if e["status"] == "PENDING":
            run.v("C12", "reattempt_before_timer", "step", f"{e['path']}: function entered while the retry timer is pending")


def _reached_repeatedly(p):
    return False


# ------------------------------------------------------------------------------------------------ C13


def mon_c13(run, case, stmts):
    """Oracle on *recorded* polls: a poll whose RETRY/SUCCEED record never reached the backend (crash, fault) is
    legitimately repeated with the same (state, attempt)."""
    b = run.backend
    by_path: dict = {}
    for pl in run.polls:
        by_path.setdefault(pl["path"], []).append(pl)
    for p, polls in by_path.items():
        s = stmts.get(p)
        if s is None:
            continue
        json_serdes = s.get("serdes") == "json"

        def norm(v, json_serdes=json_serdes):
            return json.loads(json.dumps(v)) if json_serdes else v

        init = from_tagged(s["init"])
        log = [e for e in b.log if b.path_of.get(e["upd"]["Id"]) == p]
        retries = [e for e in log if e["upd"]["Action"] == "RETRY"]
        ends = [e for e in log if e["upd"]["Action"] in ("SUCCEED", "FAIL")]

        def producer(rec):
            cands = [q for q in polls if q["clk"] < rec["clk"] and "state_out" in q]
            return cands[-1] if cands else None

        raised = [o for o in run.obs if o["path"] == p and o["kind"] == "wfcond" and o["out"] == "exc" and o["exc"] not in INVOCATION_ERRORS and "Deserialization failed" not in (o.get("msg") or "")]
        if raised:
            later = [q for q in polls if q["clk"] > raised[0]["clk"]]
            if later:
                run.v("C13", "polled_after_error_delivered", "check", f"{p}: the call raised {raised[0]['exc']}({raised[0]['msg'][:60]!r}) in invocation {raised[0]['inv']}, "
                                                                      f"yet the check function was called again in invocation {later[0]['inv']}")
        for i, pl in enumerate(polls):
            state_in = from_tagged(pl["state_in"])
            if any(e["clk"] < pl["clk"] for e in ends):
                run.v("C13", "polled_after_completion", "check", f"{p}: check function called (poll #{i + 1}, invocation {pl['inv']}) after the operation's SUCCEED/FAIL was recorded")
                break
            before = [e for e in retries if e["clk"] < pl["clk"]]
            if not before:
                if not teq(state_in, init):
                    run.v("C13", "first_poll_not_initial_state", "check", f"{p}: poll before any recorded continue received {state_in!r}, initial state is {init!r}")
            else:
                q = producer(before[-1])
                if q is not None:
                    want = norm(from_tagged(q["state_out"]))
                    if not teq(state_in, want):
                        run.v("C13", "state_not_threaded", "check",
                              f"{p}: poll #{i + 1} (invocation {pl['inv']}) received {state_in!r}; the last recorded poll returned {want!r}")
            att = pl.get("attempt")
            if att is not None and att != 1 + len(before):
                run.v("C13", "poll_number_wrong", "strategy", f"{p}: poll #{i + 1} reported attempt {att} with {len(before)} continues recorded (expected {1 + len(before)})")
        # every recorded continue carries the state and the delay max(1, d)
        for e in retries:
            q = producer(e)
            d = (e["upd"].get("StepOptions") or {}).get("NextAttemptDelaySeconds")
            if q is not None and q.get("decision") and q["decision"][0] == "continue":
                if d != max(1, q["decision"][1]):
                    run.v("C13", "continue_delay_mismatch", "RETRY", f"{p}: strategy asked for {q['decision'][1]} s, RETRY record carries {d!r}")
            elif q is not None and q.get("decision") and q["decision"][0] == "stop":
                run.v("C13", "continue_recorded_after_stop", "RETRY", f"{p}: a RETRY was recorded although the strategy said stop")
            if not isinstance(d, int) or d < 1:
                run.v("C13", "continue_delay_below_one_second", "RETRY", f"{p}: RETRY with NextAttemptDelaySeconds={d!r}")
            if e["upd"].get("Payload") is None:
                run.v("C13", "continue_without_state", "RETRY", f"{p}: RETRY record without the state payload")
        # completion: recorded exactly when the strategy said stop; result == that poll's returned state
        succ = [e for e in ends if e["upd"]["Action"] == "SUCCEED"]
        for e in succ[:1]:
            q = producer(e)
            if q is not None and q.get("decision") and q["decision"][0] != "stop":
                run.v("C13", "completed_without_stop", "SUCCEED", f"{p}: SUCCEED recorded after a poll whose decision was {q['decision']}")
            if q is not None:
                want = from_tagged(q["state_out"])
                for o in run.obs:
                    if o["path"] == p and o["out"] == "value":
                        if not teq(o["value"], want) and not teq(o["value"], norm(want)):
                            run.v("C13", "result_not_last_state", "result", f"{p}: call returned {o['value']!r} (invocation {o['inv']}), the final poll returned {want!r}")
                            break
        for o in run.obs:
            if o["path"] == p and o["out"] == "value" and not succ:
                run.v("C13", "result_without_completion_record", "result", f"{p}: call returned a value but no SUCCEED was recorded")
                break
    # a continue decision is durably recorded before suspending
    for v in list(run.violations):
        if v["property"] == "C07" and v["kind"] == "suspended_on_unarmed_operation" and v["site"].startswith("STEP"):
            run.v("C13", "suspended_before_continue_recorded", v["site"], v["detail"])


# ------------------------------------------------------------------------------------------------ C14


def mon_c14(run, case, stmts):
    b = run.backend
    ext = {e["path"]: e for e in (case.get("plan") or {}).get("external", ())}
    ids: dict = {}
    for c in run.callback_ids:
        if c.get("via") == "submitter":
            p = c["path"] + "#cbid"
        else:
            p = c["path"]
        op = b.ops.get(b.by_path.get(p, ""))
        issued = op.get("CallbackId") if op else None
        if issued is None or c["id"] != issued:
            run.v("C14", "callback_id_not_backend_issued", "create_callback" if not c.get("via") else "wait_for_callback",
                  f"{c['path']} inv {c['inv']}: got id {c['id']!r}, backend issued {issued!r}")
        ids.setdefault(p, set()).add(c["id"])
    for p, s_ in ids.items():
        if len(s_) > 1:
            run.v("C14", "callback_id_changed", "create_callback", f"{p}: ids over invocations {sorted(s_)}")
    for o in run.obs:
        s = stmts.get(o["path"].replace("#create", ""))
        if s is None:
            continue
        if o["kind"] == "create_callback" and o["out"] == "exc":
            run.v("C14", "create_callback_raised", o["exc"], f"{o['path']} inv {o['inv']}: {o['exc']}({o['msg']})")
        if o["kind"] in ("callback_result", "invoke") and o["out"] in ("value", "exc"):
            op = b.ops.get(b.by_path.get(o["path"], ""))
            if op is None:
                continue
            st = op["Status"]
            if o["kind"] == "callback_result":
                if st == "SUCCEEDED":
                    if o["out"] != "value" or not teq(o["value"], op.get("Result")):
                        run.v("C14", "callback_result_wrong", "SUCCEEDED", f"{o['path']}: delivered {_fmt(o)}, external party sent {op.get('Result')!r}")
                elif st in TERMINAL:
                    if o["out"] != "exc" or o["exc"] != "CallbackError":
                        run.v("C14", "callback_failure_not_raised", st, f"{o['path']}: callback is {st} but result() delivered {_fmt(o)}")
                else:
                    run.v("C14", "callback_result_while_outstanding", str(st), f"{o['path']}: result() delivered {_fmt(o)} while the callback is {st}")
            else:
                if st == "SUCCEEDED":
                    if (stmts.get(o["path"]) or {}).get("serdes") == "text":
                        # custom result serializer for plain text: every recorded string (the empty one too) is decoded by it
                        want = ["text", op["Result"]] if op.get("Result") is not None else None
                    else:
                        want = json.loads(op["Result"]) if op.get("Result") is not None else None
                    if o["out"] != "value" or not teq(o["value"], want):
                        run.v("C14", "invoke_result_wrong", "SUCCEEDED", f"{o['path']}: delivered {_fmt(o)}, invoked function returned {want!r}")
                elif st in TERMINAL:
                    err = op.get("Error") or {}
                    if o["out"] != "exc" or o["exc"] != "CallableRuntimeError":
                        run.v("C14", "invoke_failure_not_raised", st, f"{o['path']}: invoke is {st} but the call delivered {_fmt(o)}")
                    elif err.get("ErrorMessage") is not None and o["msg"] != err.get("ErrorMessage"):
                        run.v("C14", "invoke_error_altered", st, f"{o['path']}: raised message {o['msg']!r}, recorded {err.get('ErrorMessage')!r}")
                    elif err.get("ErrorType") is not None and o.get("etype") != err.get("ErrorType"):
                        run.v("C14", "invoke_error_altered", st, f"{o['path']}: raised error type {o.get('etype')!r}, recorded {err.get('ErrorType')!r}")
                else:
                    run.v("C14", "invoke_result_while_outstanding", str(st), f"{o['path']}: invoke delivered {_fmt(o)} while the call is {st}")
    # an operation the invocation was *handed* as completed must not be treated as still outstanding
    for o in run.obs:
        if o["out"] == "suspend" and o["kind"] in ("callback_result", "invoke"):
            oid = b.by_path.get(o["path"])
            st0 = getattr(b, "inv_start_status", {}).get(o["inv"], {}).get(oid)
            if st0 in TERMINAL:
                run.v("C14", "suspended_although_completed", f"{o['kind']}:{st0}",
                      f"{o['path']}: invocation {o['inv']} was handed the operation as {st0} but the call suspended as if it were outstanding")
    # ... nor one whose completion the SDK was told about earlier in this very invocation: a response that carried the
    # terminal status was received, and afterwards the same user thread completed a synchronous checkpoint (responses are
    # merged in order before their waiters are released), yet the call suspended
    for o in run.obs:
        if o["out"] != "suspend" or o["kind"] not in ("callback_result", "invoke"):
            continue
        oid = b.by_path.get(o["path"].split("#")[0])
        told = [a for a in b.api if a["inv"] == o["inv"] and a.get("done") and oid in (a.get("told") or {}) and a.get("clk_end", 0) < o["clk"]]
        if not told:
            continue
        t0 = told[0]["clk_end"]
        if any(h["inv"] == o["inv"] and h["sync"] and h.get("returned") and h.get("task") == o.get("task") and t0 < h["clk"] and h.get("ret_clk", 10**12) < o["clk"] for h in run.handovers):
            run.v("C14", "suspended_although_completed", f"{o['kind']}:{told[0]['told'][oid]}:told-in-this-invocation",
                  f"{o['path']}: a backend response in invocation {o['inv']} already carried the operation as {told[0]['told'][oid]}, a later synchronous checkpoint of the same thread had returned, yet the call suspended as if it were outstanding")
    # invoke: exactly one START carrying payload / function / tenant
    for p, s in stmts.items():
        if s["op"] != "invoke":
            continue
        starts = [e for e in b.log if b.path_of.get(e["upd"]["Id"]) == p and e["upd"]["Action"] == "START"]
        if len(starts) > 1:
            run.v("C14", "invoke_started_twice", "START", f"{p}: {len(starts)} START records")
        for e in starts[:1]:
            u = e["upd"]
            want_payload = json.dumps(s.get("payload"))
            if (u.get("Payload") or None) != (want_payload or None) and not (want_payload in ('""',) and not u.get("Payload")):
                run.v("C14", "invoke_payload_wrong", "START", f"{p}: START payload {u.get('Payload')!r}, expected {want_payload!r}")
            o = u.get("ChainedInvokeOptions") or {}
            if o.get("FunctionName") != s["fn"]:
                run.v("C14", "invoke_target_wrong", "START", f"{p}: FunctionName {o.get('FunctionName')!r}, expected {s['fn']!r}")
            if (o.get("TenantId") or None) != (s.get("tenant") or None):
                run.v("C14", "invoke_tenant_wrong", "START", f"{p}: TenantId {o.get('TenantId')!r}, expected {s.get('tenant')!r}")
    # the code between create and result runs in every invocation that reaches it: checked via observations of the between block
    for p, s in stmts.items():
        if s["op"] != "callback" or not s.get("between") or s["between"][0]["op"] in ("sleep", "log", "try", "raise", "gate", "open"):
            continue
        for inv in {o["inv"] for o in run.obs if o["path"] == p + "#create" and o["out"] == "value"}:
            reached = [o for o in run.obs if o["path"].startswith(p + "~/") and o["inv"] == inv]
            if not reached:
                died = any(i["inv"] == inv and i.get("outcome") in ("crashed", "raised", "deadlock", "time_cap") for i in run.invocations)
                if not died:
                    run.v("C14", "code_between_create_and_result_skipped", "callback", f"{p}: invocation {inv} created the callback but did not run the code before result()")
