"""Boilerplate for workflow-based property modules: install(globals(), ...) defines shard/replay/minimise."""
from __future__ import annotations

from .. import wfcheck as WC


def install(g, *, props, cases, nontrivial, classes=None, extra_monitors=(), stages=None, sample_of=None):
    g["PROPS"] = props
    g["EXTRA_MONITORS"] = tuple(extra_monitors)
    g.setdefault("cases", cases)

    def shard(ctx):
        b = ctx.budget
        WC.run_generated(ctx, cases(), props, n_cases=b["random_cases"], nontrivial=nontrivial, classes=classes,
                         extra_monitors=extra_monitors, sample_of=sample_of)
        for st in stages or ():
            st(ctx)

    def replay(case):
        return WC.replay_case(case, props, extra_monitors)

    def minimise(entry):
        return WC.minimise_case(entry, props, extra_monitors)

    g["shard"] = shard
    g["replay"] = replay
    g["minimise"] = minimise
