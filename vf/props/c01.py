"""C01 - completed operations are never re-executed; their recorded outcome is returned."""
from __future__ import annotations

from hypothesis import strategies as st

from .. import wfcheck as WC
from .. import wfgen as G

PROPS = ("C01",)

META = {
    "id": "C01",
    "level": "fault_enumeration",
    "engine": "workflow",
    "rule": (
        "Case = generated workflow program (steps with retry/failure behaviours, waits, child contexts, map/parallel, "
        "callbacks, wait_for_callback, invoke, wait_for_condition, try/except) x crash plan (die before/after backend "
        "call n or on entry of user function m of invocation k; for the listed fraction of programs EVERY such point of "
        "the crash-free run is enumerated one at a time) x per-invocation schedule (seq+preempt / walk / pct) x backend "
        "flags (delta/full responses, paging of checkpoint responses and of the invocation payload, pruned histories, "
        "timer lag), executed invocation after invocation against the stateful service model. Oracle: at every user "
        "function entry the backend record of that position is not terminal (except bodies of contexts recorded with "
        "ReplayChildren); every value a step delivers equals the generated ground truth (snapshotted at delivery; a third of "
        "the steps' results are edited in place by the handler afterwards). The single-crash enumeration also runs over seven fixed "
        "small programs, LinePreempt sweeps over state.py run in a REPLAYING invocation, and a call at a position the backend holds as SUCCEEDED "
        "never raises a foreign exception (at-most-once steps without retry inside child contexts / branches / try, wait_for_callback, map with waits). Second stage: programs whose steps/children/"
        "conditions use a schema-checking custom serializer that rejects the recorded payloads from invocation k on. Non-trivial = execution with "
        ">=2 invocations in which >=1 completed operation is re-encountered; distinct = (program shape, interruption "
        "pattern = outcomes of the invocations + crash points)."
    ),
    "assumptions": [
        "user code is deterministic outside steps and makes no durable call inside a step (AGENTS.md rules)",
        "the service model (vf/simbackend.py) is the trusted reading of the backend protocol; both pruned and unpruned histories are generated",
    ],
    "budget": {
        "quick": {"shards": 4, "random_cases": 110, "enum_programs": 6, "sweep_limit": 400, "min_nontrivial": 40},
        "thorough": {"shards": 16, "random_cases": 2500, "enum_programs": 120, "sweep_limit": 3000, "min_nontrivial": 800},
    },
}


@st.composite
def cases(draw, with_crashes=True):
    prog = draw(G.programs(max_stmts=6))
    return {
        "prog": prog,
        "limits": draw(st.sampled_from([{}, {}, {}, {"checkpoint": 300}, {"checkpoint": 120}])),
        "backend": draw(G.backend_cfgs()),
        "plan": {"crashes": draw(G.crash_plans()) if with_crashes else []},
        "sched": draw(G.schedules()),
        "line": draw(st.sampled_from([[], [], [], ["state"]])),
    }


def _mark_fragile(stmts, draw):
    for s in stmts:
        if s["op"] in ("step", "wfcond", "child") and draw(st.integers(0, 2)) > 0:
            s["serdes"] = "fragile"
        for k in ("body", "between", "handler"):
            if isinstance(s.get(k), list):
                _mark_fragile(s[k], draw)
        if isinstance(s.get("body"), dict):
            _mark_fragile([s["body"]], draw)
        for br in s.get("branches", ()):
            _mark_fragile(br, draw)


@st.composite
def text_cases(draw):
    """Steps whose results already are text and are stored with the SDK's PassThroughSerDes: the recorded payload is the
    value itself (text that merely looks like JSON included) and every replay must hand exactly that string back.
    Non-empty text only: the wire form of an update has no representation for an empty payload (it is omitted, C20's
    stated exemption 'empty == absent'), so a serializer producing "" is outside what the protocol can record."""
    txt = st.sampled_from([" ", "x", "0", "null", "\"q\"", "{}"])

    def tstep():
        return {"op": "step", "beh": {"kind": "ret", "v": draw(txt)}, "sem": draw(st.sampled_from(["least", "most"])), "retry": {"kind": "none"}, "serdes": "passthrough"}

    body = []
    for _ in range(draw(st.integers(1, 3))):
        k = draw(st.sampled_from(["step", "step", "child", "parallel"]))
        if k == "step":
            body.append(tstep())
        elif k == "child":
            body.append({"op": "child", "body": [tstep(), {"op": "wait", "secs": 1}] if draw(st.booleans()) else [tstep()]})
        else:
            body.append({"op": "parallel", "branches": [[tstep()], [tstep(), {"op": "wait", "secs": 1}]], "cfg": {"completion": {"min": None, "tol": 2, "pct": None}}})
        if draw(st.integers(0, 2)) > 0:
            body.append({"op": "wait", "secs": 1})
    body.append({"op": "wait", "secs": 1})
    body.append(draw(G.steps(allow_fail=False)))
    return {"prog": {"body": body}, "backend": draw(G.backend_cfgs()), "plan": {"crashes": draw(G.crash_plans(max_crashes=1))},
            "sched": draw(G.schedules()), "line": []}


@st.composite
def fragile_cases(draw):
    """Programs whose operations use a custom (schema-checking) serializer that stops accepting the recorded payloads
    from invocation k on: a completed operation whose payload cannot be read back must fail, never run again."""
    import copy

    prog = copy.deepcopy(draw(G.programs(max_stmts=5, features=("step", "wait", "child", "wfcond", "parallel", "map", "sleep"))))
    _mark_fragile(prog["body"], draw)
    if draw(st.booleans()):
        prog["body"].append({"op": "wait", "secs": 1})
        prog["body"].append(draw(G.steps(allow_fail=False)))
    return {"prog": prog, "backend": draw(G.backend_cfgs()), "plan": {"crashes": draw(G.crash_plans(max_crashes=1))},
            "sched": draw(G.schedules()), "line": [], "serdes_break": draw(st.sampled_from([None, 1, 1, 2, 3]))}


def nontrivial(run, case):
    if len(run.invocations) < 2:
        return None
    # a completed operation re-encountered: an observation whose pre-status was terminal
    if not any(o.get("pre") in ("SUCCEEDED", "FAILED", "TIMED_OUT", "STOPPED", "CANCELLED") for o in run.obs):
        return None
    return [G.shape_of(case["prog"]), [i.get("outcome") for i in run.invocations], (case.get("plan") or {}).get("crashes")]


def classes(run, case):
    out = []
    if any(e.get("crashed") for e in run.entries):
        out.append("crash-inside-user-function")
    if any(o.get("pre") in ("SUCCEEDED", "FAILED") for o in run.obs):
        out.append("replayed-completed-op")
    if any(e["replay_children"] for e in run.entries):
        out.append("replay-children-retraversal")
    if case.get("serdes_break") is not None and any(o["out"] == "exc" and "Deserialization failed" in (o.get("msg") or "") for o in run.obs):
        out.append("recorded-payload-unreadable")
    sv = [o for o in run.obs if o["kind"] == "step" and o["out"] == "value" and isinstance(o["value"], (list, dict))]
    if any(case_step_mutates(case, o["path"]) for o in sv if o.get("pre") in ("SUCCEEDED",)):
        out.append("replayed-value-was-edited-by-user-code")
    return out


def case_step_mutates(case, path):
    for p, s in G.program_paths(case["prog"]):
        if p == path:
            return bool(s.get("mutate"))
    return False


def enumerate_crash_points(ctx, base, props=PROPS):
    """Run `base` crash-free, then once per crash point of each of its invocations (single crash)."""
    r0 = WC.report_case(ctx, base, props, nontrivial=nontrivial, classes=classes)
    n = 0
    for inv in r0.invocations[:4]:
        k = inv["inv"]
        napi = inv.get("api_calls", 0)
        nuser = sum(1 for e in r0.entries if e["inv"] == k)
        pts = [("api_before", i) for i in range(napi)] + [("api_after", i) for i in range(napi)] + [("user", i) for i in range(nuser)]
        for at, i in pts[:70]:
            c = {**base, "plan": {**(base.get("plan") or {}), "crashes": [{"inv": k, "at": at, "n": i}]}}
            WC.report_case(ctx, c, props, nontrivial=nontrivial, classes=classes)
            n += 1
    return n


def _st(v, **k):
    return {"op": "step", "beh": {"kind": "ret", "v": v}, "sem": k.pop("sem", "least"), "retry": k.pop("retry", {"kind": "none"}), **k}


_ALL = {"completion": {"min": None, "tol": 3, "pct": None}}
FIXED_ENUM = [
    [{"op": "child", "body": [_st(1, sem="most")]}, _st(2)],
    [{"op": "parallel", "branches": [[_st(1, sem="most")], [_st(2)]], "cfg": _ALL}, {"op": "wait", "secs": 1}, _st(3)],
    [{"op": "try", "body": {"op": "child", "body": [_st(1, sem="most"), _st(2)]}, "catch": ["Exception"], "handler": []}, {"op": "wait", "secs": 1}],
    [{"op": "wfcb"}, _st(1, sem="most")],
    [{"op": "map", "items": [1, 2], "body": [_st(1), {"op": "wait", "secs": 1}, _st(2, sem="most")], "cfg": {"max_concurrency": None, **_ALL}}],
    [{"op": "wfcond", "init": 0, "decisions": [["continue", 1], ["stop"]], "trans": "count"}, {"op": "child", "body": [{"op": "callback", "between": [_st(4)]}]}],
    [{"op": "child", "body": [{"op": "step", "beh": {"kind": "fail_by_attempt", "k": 1, "err": "UserError", "v": 1}, "sem": "most", "retry": {"kind": "table", "max": 2, "delays": [1], "nonretry": []}}]}, _st(5)],
]


def shard(ctx):
    b = ctx.budget
    WC.run_generated(ctx, cases(), PROPS, n_cases=b["random_cases"], nontrivial=nontrivial, classes=classes)
    WC.run_generated(ctx, fragile_cases(), PROPS, n_cases=max(10, b["random_cases"] // 3), nontrivial=nontrivial, classes=classes, seed_offset=3)
    WC.run_generated(ctx, text_cases(), PROPS, n_cases=max(10, b["random_cases"] // 6), nontrivial=nontrivial, classes=lambda r, c: ["text-results-passthrough-serializer"] + classes(r, c), seed_offset=4)
    # exhaustive single-crash enumeration for a number of generated programs
    from hypothesis import HealthCheck, Phase, given, seed, settings

    total = [0]

    @seed(ctx.seed + 7)
    @settings(max_examples=max(1, b["enum_programs"] // max(1, ctx.nshards)) if ctx.tier == "thorough" else max(1, b["enum_programs"] // max(1, ctx.nshards)),
              database=None, deadline=None, phases=[Phase.generate], suppress_health_check=list(HealthCheck))
    @given(cases(with_crashes=False))
    def t(base):
        total[0] += enumerate_crash_points(ctx, {**base, "line": []})

    t()
    # the same enumeration for a fixed family of small programs (every operation kind in a nested position), so that
    # e.g. "at-most-once step without retry inside a child context / branch dies, then the failed context is replayed"
    # is covered by construction
    for i, body in enumerate(FIXED_ENUM):
        if ctx.nshards > 1 and i % ctx.nshards != ctx.shard % ctx.nshards:
            continue
        total[0] += enumerate_crash_points(ctx, {"prog": {"body": body}, "backend": {"response": "delta"}, "plan": {"crashes": []}, "sched": [{"mode": "seq"}], "line": [], "max_raises": 4})
    ctx.extra["crash_points_enumerated"] = total[0]
    _replay_sweep(ctx)


def _replay_sweep(ctx):
    """One long preemption at every executed source line of state.py in a REPLAYING invocation whose branches mark
    operations as visited while the background thread merges checkpoint responses into the same tables."""
    w1, w2 = {"op": "wait", "secs": 1}, {"op": "wait", "secs": 3}
    bases = [
        # branch 0 moves on to NEW operations (their responses are merged into the tables) while branch 1 is still
        # replaying completed ones
        ("parallel{step; wait 1; step; step | step; step; step; wait 3; step}",
         [{"op": "parallel", "branches": [[_st(1), w1, _st(2), _st(3)], [_st(4), _st(5), _st(6), w2, _st(7)]], "cfg": _ALL}]),
        ("map[2]{step; wait; step} next to child{step; step; wait 3}",
         [{"op": "parallel", "branches": [[{"op": "map", "items": [1, 2], "body": [_st(1), w1, _st(2)], "cfg": {"max_concurrency": None, **_ALL}}],
                                           [{"op": "child", "body": [_st(3), _st(4)]}, _st(5), w2]], "cfg": _ALL}]),
    ]
    for i, (label, body) in enumerate(bases):
        if ctx.nshards > 1 and i % ctx.nshards != ctx.shard % ctx.nshards:
            continue
        base = {"prog": {"body": body}, "backend": {"response": "delta"}, "plan": {"crashes": []}, "line": ["state"]}
        for order, stall in (("low", 0.25), ("high", 0.0)):
            # stall: the preempted task is additionally descheduled for 0.25 virtual seconds, so that batches leave and
            # responses are merged while it sits in the middle of a statement
            WC.line_preempt_sweep(ctx, base, PROPS, nontrivial=nontrivial, classes=lambda r, c: ["one-long-preemption-at-a-line"] + classes(r, c), inv=1,
                                  limit=ctx.budget.get("sweep_limit", 400), order=order, stall=stall,
                                  label=f"replaying invocation, one long preemption per line of state.py ({order}, stall {stall}s): {label}")


def replay(case):
    return WC.replay_case(case, PROPS)


def minimise(entry):
    return WC.minimise_case(entry, PROPS)
