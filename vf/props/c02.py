"""C02 - replay transparency: interruptions never change what the workflow observes."""
from __future__ import annotations

import copy

from hypothesis import strategies as st

from .. import wfcheck as WC
from .. import wfgen as G
from ..monitors import final_outcome
from ._wf import install

META = {
    "id": "C02",
    "level": "fault_enumeration",
    "engine": "workflow",
    "rule": (
        "Case = generated deterministic workflow (values from the serializer's exact round-trip domain; step behaviours "
        "are functions of the recorded attempt number; try/except by class around failing steps, wait_for_condition "
        "checks that raise, callbacks, invokes; nested child contexts, map/parallel that wait for every branch) run "
        "under TWO independently generated interruption patterns (crash plans at backend calls and inside user "
        "functions of at-least-once steps, schedules, paging/delta/pruning, timer lag). Oracle: (a) per position, every "
        "outcome delivered to user code from its first completion on is equal under type-aware equality (same value "
        "and Python types at every level / same exception class and message); (b) metamorphic: both executions end with "
        "the same status and result/error. Ground truth is needed only at step leaves. Non-trivial = >=1 position "
        "observed in >=2 invocations with a non-None value or an exception and the two runs have different invocation "
        "counts; distinct = (program shape, both invocation-outcome patterns). Second stage: the same programs with steps that "
        "return another value every time their function really runs (tickets), judged by rule (a) alone."
    ),
    "assumptions": [
        "excluded by construction: crash points inside at-most-once attempts (C04's subject), map/parallel that can decide before all branches finish, callback/invoke timeouts",
        "user code catches CallableRuntimeError/CallbackError/Exception only and lets invocation-level errors propagate",
        "both executions share one external world: each callback/invoke has a fixed outcome, only its delivery instant varies",
    ],
    "budget": {
        "quick": {"shards": 4, "random_cases": 80, "min_nontrivial": 25},
        "thorough": {"shards": 16, "random_cases": 2500, "min_nontrivial": 800},
    },
}


@st.composite
def cases(draw):
    prog = draw(G.programs(max_stmts=6, sems=("least",), deterministic=True, wfcond_fail=False, wait_all=True))
    return {
        "prog": prog,
        "limits": draw(st.sampled_from([{}, {}, {}, {"checkpoint": 300}, {"checkpoint": 120}])),
        "backend": draw(G.backend_cfgs()),
        "plan": {"crashes": draw(G.crash_plans(max_crashes=2))},
        "sched": draw(G.schedules()),
        "line": [],
        "alt": {"backend": draw(G.backend_cfgs()), "plan": {"crashes": draw(G.crash_plans(max_crashes=3))}, "sched": draw(G.schedules())},
    }


@st.composite
def fresh_cases(draw):
    """Steps that return another value each time their function really runs (what durable steps exist for). No
    metamorphic partner here (an interrupted at-least-once step legitimately runs again); the per-run rule applies:
    once a position delivered an outcome, every later replay delivers the same one."""
    prog = draw(G.programs(max_stmts=6, sems=("least", "most"), deterministic=True, wfcond_fail=False, wait_all=True, fresh=True))
    return {"prog": prog, "limits": draw(st.sampled_from([{}, {}, {"checkpoint": 300}])), "backend": draw(G.backend_cfgs()),
            "plan": {"crashes": draw(G.crash_plans(max_crashes=2))}, "sched": draw(G.schedules()), "line": []}


def _fresh_nontrivial(run, case):
    seen = {}
    for o in run.obs:
        if o["out"] == "value" and isinstance(o.get("value"), dict) and "ticket" in o["value"]:
            seen.setdefault(o["path"], set()).add(o["inv"])
    if not any(len(v) >= 2 for v in seen.values()):
        return None
    return [G.shape_of(case["prog"]), [i.get("outcome") for i in run.invocations], case["plan"]["crashes"]]


def _fresh_stage(ctx):
    WC.run_generated(ctx, fresh_cases(), PROPS, n_cases=ctx.budget["random_cases"], nontrivial=_fresh_nontrivial,
                     classes=lambda r, c: ["fresh-value-steps"] + classes(r, c), seed_offset=21)


def pair_monitor(run, case):
    alt = case.get("alt")
    if not alt:
        return
    c2 = {**{k: v for k, v in case.items() if k != "alt"}, **copy.deepcopy(alt)}
    run2 = WC.run_execution(c2)
    from ..monitors import analyse

    analyse(run2, c2)
    run.alt = run2
    for v in run2.violations:
        if v["property"] == "C02":
            run.violations.append(v)
    a, b = final_outcome(run), final_outcome(run2)
    if a is not None and b is not None and a != b:
        run.v("C02", "final_outcome_depends_on_interruptions", a[0] + "/" + b[0],
              f"same program, two interruption patterns: {str(a)[:300]} vs {str(b)[:300]}; invocations {[i.get('outcome') for i in run.invocations]} vs {[i.get('outcome') for i in run2.invocations]}")


def nontrivial(run, case):
    r2 = getattr(run, "alt", None)
    if r2 is None or len(run.invocations) == len(r2.invocations):
        return None
    seen = {}
    ok = False
    for o in run.obs + r2.obs:
        if o["out"] in ("value", "exc") and (o["out"] == "exc" or o.get("value") is not None):
            k = (id(run) if o in run.obs else 0, o["path"])
            seen.setdefault(o["path"], set()).add(o["inv"])
    ok = any(len(v) >= 2 for v in seen.values())
    if not ok:
        return None
    return [G.shape_of(case["prog"]), [i.get("outcome") for i in run.invocations], [i.get("outcome") for i in r2.invocations]]


def classes(run, case):
    out = []
    n = sum(1 for _, s in G.program_paths(case["prog"]) if s["op"] == "wfcond")
    if n:
        out.append("excluded:raising-check-function-variant")
    if any(o["out"] == "exc" for o in run.obs):
        out.append("exception-delivered")
    if any(o["kind"] == "try" for o in run.obs):
        out.append("exception-caught-by-user-code")
    return out


install(globals(), props=("C02",), cases=cases, nontrivial=nontrivial, classes=classes, extra_monitors=(pair_monitor,), stages=(_fresh_stage,))
