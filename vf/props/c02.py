"""C02 - replay transparency: interruptions never change what the workflow observes."""
from __future__ import annotations

import copy

from hypothesis import strategies as st

from .. import wfcheck as WC
from .. import wfgen as G
from ..monitors import final_outcome
from ._wf import install

META = {
    "id": "C02",
    "level": "fault_enumeration",
    "engine": "workflow",
    "rule": (
        "Case = generated deterministic workflow (values from the serializer's exact round-trip domain; step behaviours "
        "are functions of the recorded attempt number; try/except by class around failing steps, wait_for_condition "
        "checks that raise, callbacks, invokes; nested child contexts, map/parallel that wait for every branch) run "
        "under TWO independently generated interruption patterns (crash plans at backend calls and inside user "
        "functions of at-least-once steps, schedules, paging/delta/pruning, timer lag). Oracle: (a) per position, every "
        "outcome delivered to user code from its first completion on is equal under type-aware equality (same value "
        "and Python types at every level / same exception class and message); (b) metamorphic: both executions end with "
        "the same status and result/error. Ground truth is needed only at step leaves. Non-trivial = >=1 position "
        "observed in >=2 invocations with a non-None value or an exception and the two runs have different invocation "
        "counts; distinct = (program shape, both invocation-outcome patterns). Second stage: the same programs with steps that "
        "return another value every time their function really runs (tickets), a third of them with map/parallel that may decide early, "
        "judged by rule (a) alone. Third stage: eight fixed programs (each under delta/full responses and histories that arrive on later pages only) (empty error messages, tolerated failures inside batch results, oversized "
        "early-decided batches with branches that never started, nested batch results) run, suspended and replayed."
    ),
    "assumptions": [
        "excluded by construction: crash points inside at-most-once attempts (C04's subject), map/parallel that can decide before all branches finish, callback/invoke timeouts",
        "user code catches CallableRuntimeError/CallbackError/Exception only and lets invocation-level errors propagate",
        "both executions share one external world: each callback/invoke has a fixed outcome, only its delivery instant varies",
    ],
    "budget": {
        "quick": {"shards": 4, "random_cases": 80, "min_nontrivial": 25},
        "thorough": {"shards": 16, "random_cases": 2500, "min_nontrivial": 800},
    },
}


@st.composite
def cases(draw):
    prog = draw(G.programs(max_stmts=6, sems=("least",), deterministic=True, wfcond_fail=False, wait_all=True))
    return {
        "prog": prog,
        "limits": draw(st.sampled_from([{}, {}, {}, {"checkpoint": 300}, {"checkpoint": 120}])),
        "backend": draw(G.backend_cfgs()),
        "plan": {"crashes": draw(G.crash_plans(max_crashes=2))},
        "sched": draw(G.schedules()),
        "line": [],
        "alt": {"backend": draw(G.backend_cfgs()), "plan": {"crashes": draw(G.crash_plans(max_crashes=3))}, "sched": draw(G.schedules())},
    }


@st.composite
def fresh_cases(draw):
    """Steps that return another value each time their function really runs (what durable steps exist for). No
    metamorphic partner here (an interrupted at-least-once step legitimately runs again); the per-run rule applies:
    once a position delivered an outcome, every later replay delivers the same one."""
    early = draw(st.integers(0, 2)) == 0  # map/parallel that may decide before every branch finished (judged by rule (a) only)
    prog = draw(G.programs(max_stmts=6, sems=("least", "most"), deterministic=True, wfcond_fail=False, wait_all=not early, early_completion=early, fresh=True))
    # early-deciding batches are not combined with a patched checkpoint limit here: an oversized early-decided batch is
    # rebuilt from its children on replay and shows the recorded finding (started item finished before the parent's
    # record) at every enclosing level; the directed stage covers oversized early-decided batches deterministically
    return {"prog": prog, "limits": {} if early else draw(st.sampled_from([{}, {}, {"checkpoint": 300}, {"checkpoint": 120}])), "backend": draw(G.backend_cfgs()),
            "plan": {"crashes": draw(G.crash_plans(max_crashes=2))}, "sched": draw(G.schedules()), "line": []}


def _fresh_nontrivial(run, case):
    seen = {}
    for o in run.obs:
        if o["out"] == "value" and isinstance(o.get("value"), dict) and "ticket" in o["value"]:
            seen.setdefault(o["path"], set()).add(o["inv"])
    if not any(len(v) >= 2 for v in seen.values()):
        return None
    return [G.shape_of(case["prog"]), [i.get("outcome") for i in run.invocations], case["plan"]["crashes"]]


def _fresh_stage(ctx):
    WC.run_generated(ctx, fresh_cases(), PROPS, n_cases=ctx.budget["random_cases"], nontrivial=_fresh_nontrivial,
                     classes=lambda r, c: ["fresh-value-steps"] + classes(r, c), seed_offset=21)


def _fs(v, **k):
    return {"op": "step", "beh": {"kind": "ret", "v": v}, "sem": "least", "retry": {"kind": "none"}, **k}


def _ff(msg, err="UserError", **k):
    return {"op": "step", "beh": {"kind": "always_fail", "err": err, "msg": msg}, "sem": "least", "retry": {"kind": "none"}, **k}


def _try(stmt):
    return {"op": "try", "body": stmt, "catch": ["Exception"], "handler": []}


_W = {"op": "wait", "secs": 1}
_TOL = {"completion": {"min": None, "tol": 3, "pct": None}}
DIRECTED = [
    # (label, body, limits): each is run, suspended by the wait(s) and replayed; rule (a) judges the replays
    ("failing step with an empty message, caught", [_try(_ff("")), _W, _fs(1), _W], {}),
    ("failing step inside a child context, empty message", [_try({"op": "child", "body": [_ff("")]}), _W, _fs(1)], {}),
    ("parallel with tolerated failures (empty / non-empty messages)", [{"op": "parallel", "branches": [[_ff("")], [_fs(2)], [_ff("x y", "ValueError")]], "cfg": _TOL}, _W, _fs(3), _W], {}),
    ("map with a failing item, result above the limit", [{"op": "map", "items": [1, 2, 3], "body": [_ff("")], "cfg": {"max_concurrency": None, **_TOL}}, _W, _fs(3)], {"checkpoint": 120}),
    ("early decision with branches that never started, result above the limit",
     [{"op": "parallel", "branches": [[{"op": "step", "beh": {"kind": "big", "n": 400, "ch": "q"}, "sem": "least", "retry": {"kind": "none"}}], [_fs(2, sleep=0.5)], [_fs(3, sleep=0.5)]],
       "cfg": {"max_concurrency": 1, "completion": {"min": 1, "tol": 3, "pct": None}, "explicit": True}}, _W, _fs(4), _W], {"checkpoint": 300}),
    ("early decision (failure tolerance) with a never-started item, map above the limit",
     [{"op": "map", "items": [1, 2, 3, 4], "body": [_ff("boom")], "cfg": {"max_concurrency": 1, "completion": {"min": None, "tol": 0, "pct": None}}}, _W, _fs(4)], {"checkpoint": 60}),
    ("fresh-value steps replayed from a history that arrives on later pages only (empty first page)",
     [{"op": "step", "beh": {"kind": "ticket"}, "sem": "least", "retry": {"kind": "none"}}, _W, {"op": "step", "beh": {"kind": "ticket"}, "sem": "most", "retry": {"kind": "none"}}, _W, _fs(1)], {}),
    ("nested batch result returned by a branch", [{"op": "parallel", "unwrap": True, "branches": [[{"op": "map", "items": [1, 2], "body": [_fs(7)], "cfg": {"max_concurrency": None, **_TOL}}], [_fs(2)]], "cfg": _TOL}, _W, _fs(1)], {}),
]


def _directed_stage(ctx):
    for i, (label, body, limits) in enumerate(DIRECTED):
        if ctx.nshards > 1 and i % ctx.nshards != ctx.shard % ctx.nshards:
            continue
        for be in ({"response": "delta"}, {"response": "full"}, {"response": "delta", "first_page": -1, "state_page": 1}, {"response": "delta", "first_page": 0, "empty_page_at": 0, "state_page": 2}):
            case = {"prog": {"body": body}, "limits": limits, "backend": be, "plan": {"crashes": []}, "sched": [{"mode": "seq"}], "line": []}
            WC.report_case(ctx, case, PROPS, nontrivial=lambda r, c: None, classes=lambda r, c: ["directed:" + label], extra_monitors=())


def pair_monitor(run, case):
    alt = case.get("alt")
    if not alt:
        return
    c2 = {**{k: v for k, v in case.items() if k != "alt"}, **copy.deepcopy(alt)}
    run2 = WC.run_execution(c2)
    from ..monitors import analyse

    analyse(run2, c2)
    run.alt = run2
    for v in run2.violations:
        if v["property"] == "C02":
            run.violations.append(v)
    a, b = final_outcome(run), final_outcome(run2)
    if a is not None and b is not None and a != b:
        run.v("C02", "final_outcome_depends_on_interruptions", a[0] + "/" + b[0],
              f"same program, two interruption patterns: {str(a)[:300]} vs {str(b)[:300]}; invocations {[i.get('outcome') for i in run.invocations]} vs {[i.get('outcome') for i in run2.invocations]}")


def nontrivial(run, case):
    r2 = getattr(run, "alt", None)
    if r2 is None or len(run.invocations) == len(r2.invocations):
        return None
    seen = {}
    ok = False
    for o in run.obs + r2.obs:
        if o["out"] in ("value", "exc") and (o["out"] == "exc" or o.get("value") is not None):
            k = (id(run) if o in run.obs else 0, o["path"])
            seen.setdefault(o["path"], set()).add(o["inv"])
    ok = any(len(v) >= 2 for v in seen.values())
    if not ok:
        return None
    return [G.shape_of(case["prog"]), [i.get("outcome") for i in run.invocations], [i.get("outcome") for i in r2.invocations]]


def classes(run, case):
    out = []
    n = sum(1 for _, s in G.program_paths(case["prog"]) if s["op"] == "wfcond")
    if n:
        out.append("excluded:raising-check-function-variant")
    if any(o["out"] == "exc" for o in run.obs):
        out.append("exception-delivered")
    if any(o["kind"] == "try" for o in run.obs):
        out.append("exception-caught-by-user-code")
    return out


install(globals(), props=("C02",), cases=cases, nontrivial=nontrivial, classes=classes, extra_monitors=(pair_monitor,), stages=(_fresh_stage, _directed_stage))
