"""C03 - write-ahead: no outcome is visible before the backend has accepted its record."""
from __future__ import annotations

from hypothesis import strategies as st

from .. import wfgen as G
from ..simbackend import FAULT_CLASSES
from ._wf import install

META = {
    "id": "C03",
    "level": "exploration",
    "engine": "workflow",
    "rule": (
        "Case = generated program (all operation kinds; sometimes parallel branches returning ~400 KB so that the batcher's "
        "overflow path is used) x schedule (walk/pct/seq+preempt per invocation, with every source line of state.py and/or "
        "threading.py a yield point in half of the cases, so the batcher can be preempted between any two statements of "
        "the hand-over/release protocol) x backend flags (paged checkpoint responses put a get-state call between 'call "
        "succeeded' and 'response merged') x fault plan (0-1 failing API calls of any error class, request lost or "
        "response lost) x crash plan. Oracle, evaluated at the instant each durable call returns to user code: the "
        "backend table already holds the terminal record of that position; create_callback returns only a backend-issued "
        "id; at a PENDING return every suspended non-orphan position has its wake record accepted; an empty-payload "
        "terminal response implies an accepted EXECUTION record. Non-trivial = execution with >=30 task switches in some "
        "invocation and >=2 API calls (producer and batcher really interleaved); distinct = (program shape, fault/crash "
        "plan, decision-trace hash of the first invocation)."
        " Plus fault enumeration: for seven fixed small programs (final failures delivered into try/except, interrupted at-most-once steps whose retry "
        "declines, suspensions, map) every backend call of the first three invocations fails once per error class and request/response loss; "
        "plus brown-out cases in which one backend call takes 60-130 virtual seconds before it fails or succeeds."
        " Plus LinePreempt sweeps: for six fixed small programs (with/without a failing call) one run per executed source line of state.py/threading.py in which the task executing that line is preempted as long as anything else can run."
    ),
    "assumptions": ["the instant of visibility is the return of the DurableContext call into the generated program (the harness owns the schedule, so reading the backend table there is race-free)"],
    "budget": {
        "quick": {"shards": 4, "random_cases": 90, "fault_cases": 120, "sweep_limit": 700, "min_nontrivial": 40},
        "thorough": {"shards": 16, "random_cases": 2500, "fault_cases": 3000, "sweep_limit": 5000, "min_nontrivial": 1200},
    },
}

_big = st.builds(lambda n, ch: {"op": "step", "beh": {"kind": "big", "n": n, "ch": ch}, "sem": "least", "retry": {"kind": "none"}},
                 st.sampled_from([300 * 1024, 420 * 1024, 500 * 1024]), st.sampled_from(["x", "y"]))


def fault_plans(max_api=8, max_inv=3):
    return st.lists(
        st.builds(lambda inv, api, cls, when: {"inv": inv, "api": api, "class": cls, "when": when},
                  st.integers(0, max_inv), st.integers(0, max_api), st.sampled_from(sorted(FAULT_CLASSES)), st.sampled_from(["before", "before", "after"])),
        max_size=1,
    )


@st.composite
def cases(draw):
    prog = draw(G.programs(max_stmts=5))
    if draw(st.integers(0, 7)) == 0:
        prog = {"body": [{"op": "parallel", "branches": [[draw(_big)], [draw(_big)]], "cfg": {"completion": {"min": None, "tol": 2, "pct": None}}}] + prog["body"][:2]}
    return {
        "prog": prog,
        "backend": draw(G.backend_cfgs()),
        "plan": {"crashes": draw(G.crash_plans(max_crashes=1)), "faults": draw(fault_plans())},
        "sched": draw(G.schedules()),
        "line": draw(st.sampled_from([[], [], ["state"], ["threading"], ["state", "threading"]])),
        "max_raises": 2,
    }


def nontrivial(run, case):
    if not any(i.get("switches", 0) >= 30 and i.get("api_calls", 0) >= 2 for i in run.invocations):
        return None
    tr = run.invocations[0].get("trace", [])
    return [G.shape_of(case["prog"]), case["plan"], hash(tuple(tr)) & 0xFFFFFF]


def classes(run, case):
    out = []
    if case["plan"]["faults"]:
        out.append("fault-planned")
    if any(i.get("failed_at") is not None for i in run.invocations):
        out.append("fault-hit")
    if any(o.get("backend_status") for o in run.obs):
        out.append("visibility-checked")
    return out


@st.composite
def fault_focused_cases(draw):
    """A failing backend call while a synchronous caller is blocked, with the batcher preemptible between any two
    source lines of the release protocol (threading.py / state.py)."""
    if draw(st.integers(0, 3)) == 0:
        # two branches whose results do not fit one batch: the second record waits in the batcher's overflow path
        body = [{"op": "parallel", "branches": [[draw(_big)], [draw(_big)]], "cfg": {"completion": {"min": None, "tol": 2, "pct": None}}}]
    else:
        body = draw(st.lists(st.one_of(G.steps(allow_fail=False), G.steps(allow_fail=False), G.waits(3),
                                       st.builds(lambda b: {"op": "child", "body": b}, st.lists(G.steps(allow_fail=False), min_size=1, max_size=2))),
                             min_size=1, max_size=3))
    return {
        "prog": {"body": body},
        "backend": {"response": "delta"},
        "plan": {"crashes": [], "faults": [{"inv": 0, "api": draw(st.integers(0, 3)), "class": draw(st.sampled_from(sorted(FAULT_CLASSES))), "when": "before"}]},
        "sched": [draw(st.one_of(
            st.builds(lambda sd, k: {"mode": "walk", "seed": sd, "stick": k}, st.integers(0, 2**31), st.sampled_from([0.0, 0.3, 0.7])),
            st.builds(lambda sd, d: {"mode": "pct", "seed": sd, "depth": d, "horizon": 500}, st.integers(0, 2**31), st.integers(1, 3))))],
        "line": draw(st.sampled_from([["threading"], ["threading"], ["state", "threading"]])),
        "max_raises": 1,
    }


def _fault_stage(ctx):
    from .. import wfcheck as WC

    WC.run_generated(ctx, fault_focused_cases(), PROPS, n_cases=ctx.budget.get("fault_cases", 100), nontrivial=nontrivial, classes=classes, seed_offset=3)


def _S(v, **k):
    return {"op": "step", "beh": {"kind": "ret", "v": v}, "sem": k.pop("sem", "least"), "retry": {"kind": "none"}, **k}


SWEEPS = [
    # (label, program body, fault or None)
    ("step; fault on call 0", [_S(1)], {"inv": 0, "api": 0, "class": "server5xx", "when": "before"}),
    ("step(at-most-once), step; fault on call 1", [_S(1, sem="most"), _S(2)], {"inv": 0, "api": 1, "class": "client4xx", "when": "before"}),
    ("child{step}; wait; fault on call 0", [{"op": "child", "body": [_S(1)]}, {"op": "wait", "secs": 1}], {"inv": 0, "api": 0, "class": "throttle", "when": "after"}),
    ("callback; wait; invoke (no fault)", [{"op": "callback", "between": [_S(3)]}, {"op": "wait", "secs": 1}, {"op": "invoke", "fn": "f", "payload": 1}], None),
    ("parallel{step,step}; fault on call 1", [{"op": "parallel", "branches": [[_S(1)], [_S(2)]], "cfg": {"completion": {"min": None, "tol": 2, "pct": None}}}], {"inv": 0, "api": 1, "class": "server5xx", "when": "before"}),
    ("retrying step (no fault)", [{"op": "step", "beh": {"kind": "fail_by_attempt", "k": 1, "err": "UserError", "v": 1}, "sem": "least", "retry": {"kind": "table", "max": 3, "delays": [1], "nonretry": []}}], None),
]


def _sweep_stage(ctx):
    """One long preemption at every executed source line of state.py / threading.py (batcher hand-over and release
    protocol), with and without a failing backend call."""
    from .. import wfcheck as WC

    for i, (label, body, fault) in enumerate(SWEEPS):
        if ctx.nshards > 1 and i % ctx.nshards != ctx.shard % ctx.nshards:
            continue
        base = {"prog": {"body": body}, "backend": {"response": "delta", "page_size": 1 if i % 2 else None}, "plan": {"crashes": [], "faults": [fault] if fault else []},
                "line": ["state", "threading"], "max_raises": 1}
        WC.line_preempt_sweep(ctx, base, PROPS, nontrivial=nontrivial, classes=lambda r, c: ["one-long-preemption-at-a-line"] + classes(r, c),
                              limit=ctx.budget.get("sweep_limit", 700), label="one long preemption per line of state/threading: " + label)


def _T(stmt):
    return {"op": "try", "body": stmt, "catch": ["Exception", "StepInterruptedError"], "handler": []}


def _R(k, mx, **kw):
    return {"op": "step", "beh": {"kind": "fail_by_attempt", "k": k, "err": "UserError", "v": 1}, "sem": kw.pop("sem", "least"),
            "retry": {"kind": "table", "max": mx, "delays": [1], "nonretry": []}, **kw}


ENUM_BASES = [
    # (label, body, crash plan): every API call of the first three invocations fails once (2 classes x request/response lost)
    ("try{at-most-once step} interrupted, retry declines", [_T(_S(1, sem="most")), _S(2)], [{"inv": 0, "at": "user", "n": 0}]),
    ("try{at-most-once retrying step} interrupted twice", [_T(_R(0, 2, sem="most")), _S(2)], [{"inv": 0, "at": "user", "n": 0}, {"inv": 1, "at": "user", "n": 0}]),
    ("try{failing step, retries exhausted}", [_T(_R(5, 2)), _S(2)], []),
    ("try{child{failing step}}; step", [_T({"op": "child", "body": [{"op": "step", "beh": {"kind": "always_fail", "err": "UserError", "msg": "x"}, "sem": "least", "retry": {"kind": "none"}}]}), _S(3)], []),
    ("step; wait; step", [_S(1), {"op": "wait", "secs": 1}, _S(2)], []),
    ("try{wfcond that fails}; callback", [_T({"op": "wfcond", "init": 0, "decisions": [["continue", 1], ["stop"]], "trans": "count", "fail_at": 2}), {"op": "wfcb"}], []),
    ("try{step} as the whole handler", [_T(_S(1))], []),
    ("try{child{step; step}}", [_T({"op": "child", "body": [_S(1), _S(2)]})], []),
    ("map{step}", [{"op": "map", "items": [1, 2], "body": [_S(1)], "cfg": {"max_concurrency": None, "completion": {"min": None, "tol": 2, "pct": None}}}], []),
]


def _enum_stage(ctx):
    """Fault enumeration: for fixed small programs (final failures delivered into a try/except, interrupted at-most-once
    steps, suspensions) every backend call of the first invocations fails once."""
    from .. import wfcheck as WC

    total = 0
    for i, (label, body, crashes) in enumerate(ENUM_BASES):
        if ctx.nshards > 1 and i % ctx.nshards != ctx.shard % ctx.nshards:
            continue
        for page in (None, 1):
            base = {"prog": {"body": body}, "backend": {"response": "delta", "page_size": page}, "plan": {"crashes": crashes, "faults": []}, "sched": [{"mode": "seq"}], "line": [], "max_raises": 2}
            total += WC.enumerate_faults(ctx, base, PROPS, nontrivial=nontrivial, classes=lambda r, c: ["fault-enumeration"] + classes(r, c),
                                         fault_classes=("server5xx", "client4xx", "throttle"))
            if page is None:
                # a throttled service: the same call (and any immediate re-attempt of it) fails three times in a row
                r0 = WC.report_case(ctx, base, PROPS, nontrivial=nontrivial, classes=classes)
                for inv in r0.invocations[:2]:
                    for i in range(min(inv.get("api_calls", 0), 6)):
                        f = {"inv": inv["inv"], "api": i, "class": "throttle", "when": "before", "repeat": 3}
                        WC.report_case(ctx, {**base, "plan": {**base["plan"], "faults": [f]}}, PROPS, nontrivial=nontrivial, classes=lambda r, c: ["fault-enumeration", "throttled-three-times"] + classes(r, c))
                        total += 1
    ctx.extra["fault_points_enumerated"] = ctx.extra.get("fault_points_enumerated", 0) + total


@st.composite
def slow_call_cases(draw):
    """A brown-out: one backend call takes 60-130 s (virtual) and then fails or succeeds; nothing may become visible
    to user code, nor may PENDING/SUCCEEDED be reported, while a record is still unaccepted."""
    body = draw(st.lists(st.one_of(G.steps(allow_fail=False), G.waits(2), st.builds(lambda b: {"op": "child", "body": b}, st.lists(G.steps(allow_fail=False), min_size=1, max_size=2))),
                         min_size=1, max_size=3))
    api = draw(st.integers(0, 3))
    fault = draw(st.sampled_from([None, "server5xx", "client4xx", "throttle"]))
    return {"prog": {"body": body}, "backend": {"response": "delta", "slow_calls": {f"0:{api}": draw(st.sampled_from([60.0, 80.0, 130.0]))}},
            "plan": {"crashes": [], "faults": [{"inv": 0, "api": api, "class": fault, "when": draw(st.sampled_from(["before", "after"]))}] if fault else []},
            "sched": [draw(G.chooser_specs())], "line": [], "max_raises": 1}


def _slow_stage(ctx):
    from .. import wfcheck as WC

    WC.run_generated(ctx, slow_call_cases(), PROPS, n_cases=max(20, ctx.budget.get("fault_cases", 100) // 3), nontrivial=lambda r, c: None,
                     classes=lambda r, c: ["slow-backend-call"] + classes(r, c), seed_offset=5)


install(globals(), props=("C03",), cases=cases, nontrivial=nontrivial, classes=classes, stages=(_fault_stage, _enum_stage, _slow_stage, _sweep_stage))
