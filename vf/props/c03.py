"""C03 - write-ahead: no outcome is visible before the backend has accepted its record."""
from __future__ import annotations

from hypothesis import strategies as st

from .. import wfgen as G
from ..simbackend import FAULT_CLASSES
from ._wf import install

META = {
    "id": "C03",
    "level": "exploration",
    "engine": "workflow",
    "rule": (
        "Case = generated program (all operation kinds; sometimes parallel branches returning ~400 KB so that the batcher's "
        "overflow path is used) x schedule (walk/pct/seq+preempt per invocation, with every source line of state.py and/or "
        "threading.py a yield point in half of the cases, so the batcher can be preempted between any two statements of "
        "the hand-over/release protocol) x backend flags (paged checkpoint responses put a get-state call between 'call "
        "succeeded' and 'response merged') x fault plan (0-1 failing API calls of any error class, request lost or "
        "response lost) x crash plan. Oracle, evaluated at the instant each durable call returns to user code: the "
        "backend table already holds the terminal record of that position; create_callback returns only a backend-issued "
        "id; at a PENDING return every suspended non-orphan position has its wake record accepted; an empty-payload "
        "terminal response implies an accepted EXECUTION record. Non-trivial = execution with >=30 task switches in some "
        "invocation and >=2 API calls (producer and batcher really interleaved); distinct = (program shape, fault/crash "
        "plan, decision-trace hash of the first invocation)."
        " Plus LinePreempt sweeps: for six fixed small programs (with/without a failing call) one run per executed source line of state.py/threading.py in which the task executing that line is preempted as long as anything else can run."
    ),
    "assumptions": ["the instant of visibility is the return of the DurableContext call into the generated program (the harness owns the schedule, so reading the backend table there is race-free)"],
    "budget": {
        "quick": {"shards": 4, "random_cases": 90, "fault_cases": 120, "sweep_limit": 700, "min_nontrivial": 40},
        "thorough": {"shards": 16, "random_cases": 2500, "fault_cases": 3000, "sweep_limit": 5000, "min_nontrivial": 1200},
    },
}

_big = st.builds(lambda n, ch: {"op": "step", "beh": {"kind": "big", "n": n, "ch": ch}, "sem": "least", "retry": {"kind": "none"}},
                 st.sampled_from([300 * 1024, 420 * 1024, 500 * 1024]), st.sampled_from(["x", "y"]))


def fault_plans(max_api=8, max_inv=3):
    return st.lists(
        st.builds(lambda inv, api, cls, when: {"inv": inv, "api": api, "class": cls, "when": when},
                  st.integers(0, max_inv), st.integers(0, max_api), st.sampled_from(sorted(FAULT_CLASSES)), st.sampled_from(["before", "before", "after"])),
        max_size=1,
    )


@st.composite
def cases(draw):
    prog = draw(G.programs(max_stmts=5))
    if draw(st.integers(0, 7)) == 0:
        prog = {"body": [{"op": "parallel", "branches": [[draw(_big)], [draw(_big)]], "cfg": {"completion": {"min": None, "tol": 2, "pct": None}}}] + prog["body"][:2]}
    return {
        "prog": prog,
        "backend": draw(G.backend_cfgs()),
        "plan": {"crashes": draw(G.crash_plans(max_crashes=1)), "faults": draw(fault_plans())},
        "sched": draw(G.schedules()),
        "line": draw(st.sampled_from([[], [], ["state"], ["threading"], ["state", "threading"]])),
        "max_raises": 2,
    }


def nontrivial(run, case):
    if not any(i.get("switches", 0) >= 30 and i.get("api_calls", 0) >= 2 for i in run.invocations):
        return None
    tr = run.invocations[0].get("trace", [])
    return [G.shape_of(case["prog"]), case["plan"], hash(tuple(tr)) & 0xFFFFFF]


def classes(run, case):
    out = []
    if case["plan"]["faults"]:
        out.append("fault-planned")
    if any(i.get("failed_at") is not None for i in run.invocations):
        out.append("fault-hit")
    if any(o.get("backend_status") for o in run.obs):
        out.append("visibility-checked")
    return out


@st.composite
def fault_focused_cases(draw):
    """A failing backend call while a synchronous caller is blocked, with the batcher preemptible between any two
    source lines of the release protocol (threading.py / state.py)."""
    if draw(st.integers(0, 3)) == 0:
        # two branches whose results do not fit one batch: the second record waits in the batcher's overflow path
        body = [{"op": "parallel", "branches": [[draw(_big)], [draw(_big)]], "cfg": {"completion": {"min": None, "tol": 2, "pct": None}}}]
    else:
        body = draw(st.lists(st.one_of(G.steps(allow_fail=False), G.steps(allow_fail=False), G.waits(3),
                                       st.builds(lambda b: {"op": "child", "body": b}, st.lists(G.steps(allow_fail=False), min_size=1, max_size=2))),
                             min_size=1, max_size=3))
    return {
        "prog": {"body": body},
        "backend": {"response": "delta"},
        "plan": {"crashes": [], "faults": [{"inv": 0, "api": draw(st.integers(0, 3)), "class": draw(st.sampled_from(sorted(FAULT_CLASSES))), "when": "before"}]},
        "sched": [draw(st.one_of(
            st.builds(lambda sd, k: {"mode": "walk", "seed": sd, "stick": k}, st.integers(0, 2**31), st.sampled_from([0.0, 0.3, 0.7])),
            st.builds(lambda sd, d: {"mode": "pct", "seed": sd, "depth": d, "horizon": 500}, st.integers(0, 2**31), st.integers(1, 3))))],
        "line": draw(st.sampled_from([["threading"], ["threading"], ["state", "threading"]])),
        "max_raises": 1,
    }


def _fault_stage(ctx):
    from .. import wfcheck as WC

    WC.run_generated(ctx, fault_focused_cases(), PROPS, n_cases=ctx.budget.get("fault_cases", 100), nontrivial=nontrivial, classes=classes, seed_offset=3)


def _S(v, **k):
    return {"op": "step", "beh": {"kind": "ret", "v": v}, "sem": k.pop("sem", "least"), "retry": {"kind": "none"}, **k}


SWEEPS = [
    # (label, program body, fault or None)
    ("step; fault on call 0", [_S(1)], {"inv": 0, "api": 0, "class": "server5xx", "when": "before"}),
    ("step(at-most-once), step; fault on call 1", [_S(1, sem="most"), _S(2)], {"inv": 0, "api": 1, "class": "client4xx", "when": "before"}),
    ("child{step}; wait; fault on call 0", [{"op": "child", "body": [_S(1)]}, {"op": "wait", "secs": 1}], {"inv": 0, "api": 0, "class": "throttle", "when": "after"}),
    ("callback; wait; invoke (no fault)", [{"op": "callback", "between": [_S(3)]}, {"op": "wait", "secs": 1}, {"op": "invoke", "fn": "f", "payload": 1}], None),
    ("parallel{step,step}; fault on call 1", [{"op": "parallel", "branches": [[_S(1)], [_S(2)]], "cfg": {"completion": {"min": None, "tol": 2, "pct": None}}}], {"inv": 0, "api": 1, "class": "server5xx", "when": "before"}),
    ("retrying step (no fault)", [{"op": "step", "beh": {"kind": "fail_by_attempt", "k": 1, "err": "UserError", "v": 1}, "sem": "least", "retry": {"kind": "table", "max": 3, "delays": [1], "nonretry": []}}], None),
]


def _sweep_stage(ctx):
    """One long preemption at every executed source line of state.py / threading.py (batcher hand-over and release
    protocol), with and without a failing backend call."""
    from .. import wfcheck as WC

    for i, (label, body, fault) in enumerate(SWEEPS):
        if ctx.nshards > 1 and i % ctx.nshards != ctx.shard % ctx.nshards:
            continue
        base = {"prog": {"body": body}, "backend": {"response": "delta", "page_size": 1 if i % 2 else None}, "plan": {"crashes": [], "faults": [fault] if fault else []},
                "line": ["state", "threading"], "max_raises": 1}
        WC.line_preempt_sweep(ctx, base, PROPS, nontrivial=nontrivial, classes=lambda r, c: ["one-long-preemption-at-a-line"] + classes(r, c),
                              limit=ctx.budget.get("sweep_limit", 700), label="one long preemption per line of state/threading: " + label)


install(globals(), props=("C03",), cases=cases, nontrivial=nontrivial, classes=classes, stages=(_fault_stage, _sweep_stage))
