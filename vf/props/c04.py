"""C04 - at-most-once steps start their function at most once per attempt."""
from __future__ import annotations

from hypothesis import strategies as st

from .. import wfgen as G
from ._wf import install

META = {
    "id": "C04",
    "level": "fault_enumeration",
    "engine": "workflow",
    "rule": (
        "Case = program containing AT_MOST_ONCE_PER_RETRY steps (fail k times then return / always fail / return) with a "
        "generated retry strategy (decline, or retry up to m times with delays), optionally inside child contexts and "
        "map/parallel branches, x crash plan concentrated between 'attempt start recorded' and 'attempt outcome "
        "recorded' (on entry of the user function, before/after the backend calls) for the first AND the retry attempts "
        "x schedules x backend flags. Oracle: entry counter keyed by (position, backend attempt counter at entry) <= 1; at "
        "every entry the backend already holds the step as STARTED for that attempt (start durably recorded first); an attempt "
        "found interrupted is put to the retry strategy as THAT attempt (1 + recorded retries). Extra stages: strategies at "
        "their limit (attempt k of max k interrupted), and a schema-checking custom serializer that rejects the recorded result. "
        "Plus fault enumeration: eight fixed programs (at-most-once step in child/map/parallel, after an asynchronous record, after 0.15 s of plain computation so that its START is queued behind a call in flight, "
        "retrying) x backend latency 0/0.2 s x every backend call of the first three invocations failing once (2 classes x "
        "request/response lost). Non-trivial = an invocation died strictly inside an at-most-once attempt; extra class: inside attempt >= 2; "
        "distinct = (program shape, crash plan, invocation outcomes)."
    ),
    "assumptions": ["the backend's attempt counter = number of accepted RETRY records (DESIGN.md §6)"],
    "budget": {
        "quick": {"shards": 4, "random_cases": 60, "enum_programs": 16, "min_nontrivial": 30},
        "thorough": {"shards": 16, "random_cases": 1500, "enum_programs": 400, "min_nontrivial": 900},
    },
}


def _most_steps():
    vals = G.tagged_values()
    return st.builds(
        lambda beh, retry, y: {"op": "step", "beh": beh, "sem": "most", "retry": retry, "yields": y},
        G.step_behaviours(vals, True),
        st.one_of(G.retry_specs(), G.retry_specs(), st.none()),
        st.sampled_from([0, 1, 2]),
    )


@st.composite
def cases(draw):
    n = draw(st.integers(1, 3))
    body = []
    for _ in range(n):
        kind = draw(st.sampled_from(["step", "step", "step", "least", "wait", "child", "parallel"]))
        if kind == "step":
            body.append(draw(_most_steps()))
        elif kind == "least":
            body.append(draw(G.steps(sems=("least",))))
        elif kind == "wait":
            body.append(draw(G.waits(4)))
        elif kind == "child":
            body.append({"op": "child", "body": [draw(_most_steps())]})
        else:
            body.append({"op": "parallel", "branches": [[draw(_most_steps())], [draw(G.steps(sems=("least", "most")))]], "cfg": {"completion": {"min": None, "tol": 2, "pct": None}}})
    if not any(s["op"] == "step" and s.get("sem") == "most" for s in body):
        body.append(draw(_most_steps()))
    crashes = draw(st.lists(st.builds(lambda inv, at, k: {"inv": inv, "at": at, "n": k}, st.integers(0, 5),
                                      st.sampled_from(["user", "user", "user", "api_before", "api_after"]), st.integers(0, 6)), max_size=3))
    return {"prog": {"body": body}, "backend": draw(G.backend_cfgs()), "plan": {"crashes": crashes}, "sched": draw(G.schedules()), "line": []}


def _most(case):
    return {p for p, s in G.program_paths(case["prog"]) if s["op"] == "step" and s.get("sem") == "most"}


def nontrivial(run, case):
    most = _most(case)
    inside = [e for e in run.entries if e.get("crashed") and e["path"] in most]
    if not inside:
        died = any(i.get("outcome") == "crashed" and any(e["inv"] == i["inv"] and e["path"] in most for e in run.entries) for i in run.invocations)
        if not died:
            return None
    return [G.shape_of(case["prog"]), case["plan"]["crashes"], [i.get("outcome") for i in run.invocations]]


def classes(run, case):
    most = _most(case)
    out = []
    if any(e.get("crashed") and e["path"] in most for e in run.entries):
        out.append("crash-inside-at-most-once-attempt")
    if any(e.get("crashed") and e["path"] in most and (e["attempt"] or 0) >= 1 for e in run.entries):
        out.append("crash-inside-retry-attempt")
    if any(o["out"] == "exc" and o["exc"] == "StepInterruptedError" for o in run.obs):
        out.append("interrupted-attempt-failed")
    if any(c["err"] == "StepInterruptedError" and c["retry"] for c in run.strategy_calls):
        out.append("interrupted-attempt-retried")
    return out


def _enumerate_inside_attempts(ctx):
    """Construction instead of luck: run the program crash-free, then die once at every entry of an at-most-once
    function (and around the backend calls of that invocation); from those runs, die again inside retry attempts."""
    from hypothesis import HealthCheck, Phase, given, seed, settings

    from .. import wfcheck as WC

    n_prog = max(1, ctx.budget.get("enum_programs", 8) // max(1, ctx.nshards))
    count = [0]

    @seed(ctx.seed + 11)
    @settings(max_examples=n_prog, database=None, deadline=None, phases=[Phase.generate], suppress_health_check=list(HealthCheck))
    @given(cases())
    def t(base):
        base = {**base, "plan": {"crashes": []}}
        most = _most(base)
        r0 = WC.report_case(ctx, base, PROPS, nontrivial=nontrivial, classes=classes)
        level1 = []
        for e in r0.entries:
            if e["path"] in most:
                level1.append({"inv": e["inv"], "at": "user", "n": e["n"]})
        for i in r0.invocations[:3]:
            if any(e["inv"] == i["inv"] and e["path"] in most for e in r0.entries):
                for k in range(min(i.get("api_calls", 0), 5)):
                    level1.append({"inv": i["inv"], "at": "api_before", "n": k})
                    level1.append({"inv": i["inv"], "at": "api_after", "n": k})
        for c1 in level1[:24]:
            r1 = WC.report_case(ctx, {**base, "plan": {"crashes": [c1]}}, PROPS, nontrivial=nontrivial, classes=classes)
            count[0] += 1
            lvl2 = [{"inv": e["inv"], "at": "user", "n": e["n"]} for e in r1.entries
                    if e["path"] in most and (e["attempt"] or 0) >= 1 and e["inv"] > c1["inv"]]
            for c2 in lvl2[:3]:
                WC.report_case(ctx, {**base, "plan": {"crashes": [c1, c2]}}, PROPS, nontrivial=nontrivial, classes=classes)
                count[0] += 1

    t()
    ctx.extra["crash_points_enumerated"] = count[0]


def _M(v=1, **k):
    return {"op": "step", "beh": {"kind": "ret", "v": v}, "sem": "most", "retry": k.pop("retry", {"kind": "none"}), **k}


def _L(v=2, **k):
    return {"op": "step", "beh": {"kind": "ret", "v": v}, "sem": "least", "retry": {"kind": "none"}, **k}


_Z = {"op": "sleep", "secs": 0.15}

FAULT_BASES = [
    ("child{at-most-once step}", [{"op": "child", "body": [_M()]}]),
    ("child{compute 0.15 s; at-most-once step}", [{"op": "child", "body": [_Z, _M()]}]),
    ("step; compute 0.15 s; at-most-once step", [_L(), _Z, _M()]),
    ("parallel{compute; at-most-once | at-least-once}", [{"op": "parallel", "branches": [[_Z, _M()], [_L()]], "cfg": {"completion": {"min": None, "tol": 2, "pct": None}}}]),
    ("step; at-most-once step", [_L(), _M()]),
    ("parallel{at-most-once | at-least-once(slow)}", [{"op": "parallel", "branches": [[_M()], [_L(sleep=0.3)]], "cfg": {"completion": {"min": None, "tol": 2, "pct": None}}}]),
    ("map{at-most-once}", [{"op": "map", "items": [1, 2], "body": [_M()], "cfg": {"max_concurrency": None, "completion": {"min": None, "tol": 2, "pct": None}}}]),
    ("at-most-once retrying step (2 attempts)", [{"op": "step", "beh": {"kind": "fail_by_attempt", "k": 1, "err": "UserError", "v": 1}, "sem": "most",
                                                   "retry": {"kind": "table", "max": 3, "delays": [1], "nonretry": []}}]),
]


@st.composite
def fragile_cases(draw):
    """At-most-once steps with a schema-checking custom serializer that stops accepting recorded payloads from invocation
    k on: a recorded success that cannot be read back fails the execution, it is never a licence to run the function again."""
    body = []
    for _ in range(draw(st.integers(1, 2))):
        s_ = draw(_most_steps())
        s_["serdes"] = "fragile"
        body.append(s_ if draw(st.booleans()) else {"op": "child", "body": [s_]})
        body.append(draw(G.waits(2)))
    body.append(draw(G.steps(sems=("least",), allow_fail=False)))
    return {"prog": {"body": body}, "backend": draw(G.backend_cfgs()), "plan": {"crashes": []}, "sched": draw(G.schedules()), "line": [],
            "serdes_break": draw(st.sampled_from([1, 1, 2, 3]))}


def _fragile_stage(ctx):
    from .. import wfcheck as WC

    WC.run_generated(ctx, fragile_cases(), PROPS, n_cases=max(10, ctx.budget["random_cases"] // 3), nontrivial=lambda r, c: None,
                     classes=lambda r, c: ["custom-serializer-rejects-recorded-payload"] + classes(r, c), seed_offset=17)


def _limit_stage(ctx):
    """Strategies at their limit: attempt k of max k is interrupted (crash on entry of the function in every invocation
    in turn), for decision tables and packaged strategies."""
    from .. import wfcheck as WC

    n = 0
    for mx in (1, 2, 3):
        for retry in ({"kind": "table", "max": mx, "delays": [1], "nonretry": []},
                      {"kind": "config", "cfg": {"max_attempts": mx, "initial": 1, "max_delay": 4, "rate": 2, "jitter": "NONE", "types": None, "errors": None}}):
            step = {"op": "step", "beh": {"kind": "fail_then_ret", "k": 5, "err": "UserError", "v": 1}, "sem": "most", "retry": retry}
            for body in ([step], [{"op": "child", "body": [step]}]):
                for inv in range(mx):
                    case = {"prog": {"body": body}, "backend": {"response": "delta"}, "plan": {"crashes": [{"inv": inv, "at": "user", "n": 0}]}, "sched": [{"mode": "seq"}], "line": [], "randoms": [0.5]}
                    if ctx.nshards > 1 and n % ctx.nshards != ctx.shard % ctx.nshards:
                        n += 1
                        continue
                    n += 1
                    WC.report_case(ctx, case, PROPS, nontrivial=nontrivial, classes=lambda r, c: ["interrupted-at-the-strategy-limit"] + classes(r, c))
    ctx.extra["limit_cases"] = n


def _fault_stage(ctx):
    """Fault enumeration with calls in flight (backend latency 0 / 0.2 s): every backend call of the first three
    invocations fails once while an at-most-once START may be queued behind it."""
    from .. import wfcheck as WC

    total = 0
    for i, (label, body) in enumerate(FAULT_BASES):
        if ctx.nshards > 1 and i % ctx.nshards != ctx.shard % ctx.nshards:
            continue
        for lat in (0.0, 0.2):
            base = {"prog": {"body": body}, "backend": {"response": "delta", "api_latency": lat}, "plan": {"crashes": [], "faults": []}, "sched": [{"mode": "seq"}], "line": [], "max_raises": 3}
            total += WC.enumerate_faults(ctx, base, PROPS, nontrivial=nontrivial, classes=lambda r, c: ["fault-enumeration"] + classes(r, c),
                                         fault_classes=("server5xx", "client4xx"), limit=80)
    ctx.extra["fault_points_enumerated"] = total


install(globals(), props=("C04",), cases=cases, nontrivial=nontrivial, classes=classes, stages=(_enumerate_inside_attempts, _fault_stage, _fragile_stage, _limit_stage))
