"""C05 - checkpoint stream: nothing lost, duplicated or reordered; limits respected; sync callers released.

Direct harness on the real ExecutionState + background batcher with a recording service client, producers as
scheduler tasks, virtual time. The oracle is stated on call intervals only, never on the SDK's queues.
"""
from __future__ import annotations

import json

from .. import detsched as D

D.install()

from hypothesis import HealthCheck, Phase, given, seed, settings  # noqa: E402
from hypothesis import strategies as st  # noqa: E402

from .. import ensure_repo_on_path  # noqa: E402

ensure_repo_on_path()

import aws_durable_execution_sdk_python.state as S  # noqa: E402
import aws_durable_execution_sdk_python.threading as T  # noqa: E402
from aws_durable_execution_sdk_python.exceptions import BackgroundThreadError  # noqa: E402
from aws_durable_execution_sdk_python.identifier import OperationIdentifier  # noqa: E402
from aws_durable_execution_sdk_python.lambda_service import (  # noqa: E402
    CheckpointOutput,
    CheckpointUpdatedExecutionState,
    OperationUpdate,
    StateOutput,
)

D.rebind_sdk()

META = {
    "id": "C05",
    "level": "exploration",
    "engine": "detsched",
    "rule": (
        "Scenario = generated CheckpointBatcherConfig (size 150B-4KB or default, ops 1-5 or default, window 0-1s) x 1-4 "
        "producer tasks, each a script of create_checkpoint calls (sync/async/empty, payload sizes 0..3x the size limit, "
        "virtual sleeps between calls) x schedule (walk/pct/seq choosers, optionally every source line of state.py a "
        "yield point; all schedules with <=2 preemptions for small listed configurations), ended by a final sync empty "
        "checkpoint. Oracle on call intervals: no update delivered twice; when a sync call returns its update, all "
        "earlier updates of that producer and all updates whose calls had returned before it started are already "
        "delivered; per-producer program order and call_end(A)<call_start(B)=>A before B; token(i+1)==token returned "
        "by call i; count<=limit; size<=limit unless single update; every sync caller returns (deadlock/time-cap = "
        "violation), also when the backend call fails - the checkpoint call itself or a get-state call that fetches the "
        "remaining pages of a paged checkpoint response - (then with the failure, and no call follows the failed one); after "
        "the final flush nothing is missing. Non-trivial = >=2 API calls and (an update went through "
        "the overflow path (its call exceeded the batch's remaining size) or arrived during an open window); distinct = "
        "(config, scripts, decision-trace hash)."
    ),
    "assumptions": [
        "update size is measured as the SDK documents it: len(json.dumps(update.to_dict()))",
        "the recording client returns a fresh token per call; in a quarter of the generated scenarios one call (and every later one) raises: then every synchronous caller must be released with the failure (never with success for an undelivered update) and nobody may block",
        "operation ids are unique per update and carry no parent (orphan rejection is C10's subject)",
    ],
    "budget": {
        "quick": {"shards": 4, "bounded_max_runs": 1500, "random_cases": 450, "min_nontrivial": 40},
        "thorough": {"shards": 16, "bounded_max_runs": 60000, "random_cases": 9000, "min_nontrivial": 500},
    },
}


def _mk_update(pid: int, i: int, size: int, ch: str = "x") -> OperationUpdate:
    # non-ASCII payloads: `size` is the number of bytes the payload occupies in the (escaped) JSON that goes on the wire
    per = len(json.dumps(ch)) - 2
    return OperationUpdate.create_step_succeed(OperationIdentifier(f"p{pid}-{i}", None, "n"), payload=ch * (size // per))


def _size(u) -> int:
    return len(json.dumps(u.to_dict()).encode("utf-8"))


def run_scenario(scn: dict, chooser, *, line_mode=False):
    sched = D.Scheduler(chooser, time_cap=120.0, step_cap=150_000)
    sched.line_mode = line_mode
    api_calls: list = []  # {token, ids, sizes, start, end}
    delivered: dict = {}  # id -> (call index, pos)
    dup: list = []
    clock = [0]
    calls: dict = {}  # id -> {start, end, sync, producer, idx}
    viol: list = []
    stats = {"overflow": 0, "window": 0}
    state_calls = [0]
    failed_state = [False]
    may_fail = scn.get("fail_call") is not None or (scn.get("fail_state_call") is not None and scn.get("pages"))

    def tick():
        clock[0] += 1
        return clock[0]

    cfg = scn.get("config")
    bcfg = S.CheckpointBatcherConfig(**cfg) if cfg else S.CheckpointBatcherConfig()

    class Client:
        def checkpoint(self, durable_execution_arn, checkpoint_token, updates, client_token):
            rec = {"token": checkpoint_token, "ids": [u.operation_id for u in updates], "sizes": [_size(u) for u in updates], "start": tick()}
            api_calls.append(rec)
            sched.yield_point("api")
            if failed_state[0]:
                viol.append(("api_call_after_failure", "stream", f"checkpoint call #{len(api_calls) - 1} issued after a get-state call had failed"))
            if scn.get("fail_call") is not None and len(api_calls) - 1 >= scn["fail_call"]:
                rec["failed"] = True
                if len(api_calls) - 1 > scn["fail_call"]:
                    viol.append(("api_call_after_failure", "stream", f"call #{len(api_calls) - 1} issued after call #{scn['fail_call']} failed"))
                raise D.InjectedFault("backend says no")
            k = len(api_calls) - 1
            for pos, u in enumerate(updates):
                if u.operation_id in delivered:
                    dup.append(u.operation_id)
                else:
                    delivered[u.operation_id] = (k, pos)
            rec["end"] = tick()
            rec["ret"] = f"tok-{k + 1}"
            sched.yield_point("api")
            pages = scn.get("pages") or 0
            marker = f"m-{k}-{pages}" if pages and (scn.get("paged_calls") is None or k in scn["paged_calls"]) else None
            return CheckpointOutput(checkpoint_token=rec["ret"], new_execution_state=CheckpointUpdatedExecutionState(operations=[], next_marker=marker))

        def get_execution_state(self, durable_execution_arn=None, checkpoint_token=None, next_marker=None, *a, **kw):
            # the response of a checkpoint call was paged: the background thread fetches the remaining pages
            n = state_calls[0]
            state_calls[0] += 1
            sched.yield_point("api")
            if failed_state[0] or any(c.get("failed") for c in api_calls):
                viol.append(("api_call_after_failure", "stream", f"get-state call #{n} issued after a backend call had failed"))
            if scn.get("fail_state_call") is not None and n >= scn["fail_state_call"]:
                failed_state[0] = True
                raise D.InjectedFault("backend says no (get state)")
            _, k, left = str(next_marker).split("-")
            left = int(left) - 1
            sched.yield_point("api")
            return StateOutput(operations=[], next_marker=f"m-{k}-{left}" if left > 0 else None)

    def check_on_sync_return(me, idx, uid, started_at):
        done_calls = [c for c in api_calls if "end" in c]
        have = {i for c in done_calls for i in c["ids"]}
        if uid is not None and uid not in have:
            viol.append(("sync_returned_before_delivery", "own", f"sync call for {uid} returned but no completed API call carries it; api={_brief(api_calls)}"))
        for oid, c in calls.items():
            if oid == uid:
                continue
            if (c["producer"] == me and c["idx"] < idx) or (c.get("end") is not None and c["end"] < started_at):
                if oid not in have:
                    viol.append(("lost_before_sync_return", "earlier" if c["producer"] == me else "other-producer",
                                 f"update {oid} was handed over before sync call #{idx} of producer {me} (uid {uid}) returned, but is not delivered; api={_brief(api_calls)}"))

    def producer(me, script, state):
        for idx, op in enumerate(script):
            kind = op[0]
            if kind == "sleep":
                sched.sleep(op[1])
                continue
            sync = kind in ("sync", "sync_empty")
            uid = None
            upd = None
            if kind in ("sync", "async"):
                uid = f"p{me}-{idx}"
                upd = _mk_update(me, idx, op[1], op[2] if len(op) > 2 else "x")
            start = tick()
            if uid is not None:
                calls[uid] = {"start": start, "end": None, "sync": sync, "producer": me, "idx": idx, "size": _size(upd)}
                if any("end" not in c for c in api_calls):
                    pass
            try:
                state.create_checkpoint(upd, is_sync=sync)
            except BackgroundThreadError as e:
                if not may_fail:  # never expected: the client does not fail
                    viol.append(("unexpected_failure", "create_checkpoint", repr(e)))
                if uid is not None:
                    calls[uid]["end"] = tick()
                    calls[uid]["failed"] = True
                return
            end = tick()
            if uid is not None:
                calls[uid]["end"] = end
            if sync:
                check_on_sync_return(me, idx, uid, start)

    def root():
        state = S.ExecutionState("arn", "tok-0", {}, Client(), bcfg)
        fns = [state.checkpoint_batches_forever] + [(lambda i=i, sc=sc: producer(i, sc, state)) for i, sc in enumerate(scn["scripts"])]
        ts = [sched.spawn(f, "batcher" if i == 0 else f"prod{i - 1}", "thread") for i, f in enumerate(fns)]
        sched.block(lambda: all(t.state == "done" for t in ts[1:]), None, "producers")
        # final flush: a sync empty checkpoint issued after every producer has finished
        start = tick()
        try:
            state.create_checkpoint(None, is_sync=True)
            flushed = True
        except BackgroundThreadError:
            flushed = False
            if not may_fail:
                viol.append(("unexpected_failure", "final-flush", "BackgroundThreadError without a failing client"))
        have = {i for c in api_calls if "end" in c for i in c["ids"]}
        for oid in calls:
            if flushed and oid not in have:
                viol.append(("lost_after_flush", "final", f"update {oid} never delivered although a later sync checkpoint returned; api={_brief(api_calls)}"))
        state.stop_checkpointing()
        sched.block(lambda: ts[0].state == "done", 5.0, "batcher-exit")
        if ts[0].state != "done":
            viol.append(("batcher_did_not_stop", "stop_checkpointing", "background loop still running 5 s after stop"))

    sched.run(root, watchdog_s=180)
    info = {"outcome": sched.outcome, "steps": sched.step, "api_calls": len(api_calls), "trace": list(sched.trace)}
    if sched.outcome in ("deadlock", "time_cap"):
        blocked = [c for c in calls.values() if c["sync"] and c["end"] is None]
        viol.append(("sync_caller_never_released", sched.outcome,
                     f"{sched.outcome}: {sched.deadlock_info}; unreturned sync calls={[(k, v['size']) for k, v in calls.items() if v['sync'] and v['end'] is None]}; api={_brief(api_calls)} cfg={cfg}"))
    elif sched.outcome == "step_cap":
        info["inconclusive"] = True
    if sched.root_exc is not None and D.is_harness_exc(sched.root_exc):
        raise D.HarnessError(f"harness exception in scenario: {sched.root_exc!r}") from sched.root_exc
    for t_ in sched.tasks:
        if t_.exc is not None and D.is_harness_exc(t_.exc):
            raise D.HarnessError(f"harness exception in task {t_.name}: {t_.exc!r}") from t_.exc
    if sched.root_exc is not None:
        viol.append(("exception", type(sched.root_exc).__name__, repr(sched.root_exc)))
    for t in sched.tasks:
        if t.exc is not None and t is not sched.root:
            viol.append(("uncaught_in_task", f"{t.name}:{type(t.exc).__name__}", repr(t.exc)))
    # stream invariants
    if dup:
        viol.append(("duplicate_delivery", "stream", f"delivered twice: {dup}; api={_brief(api_calls)}"))
    exp_tok = "tok-0"
    for k, c in enumerate(api_calls):
        if c["token"] != exp_tok:
            viol.append(("token_chain", "stream", f"call {k} presented {c['token']!r}, expected {exp_tok!r}; api={_brief(api_calls)}"))
            break
        if "ret" not in c:
            break
        exp_tok = c["ret"]
    max_ops = bcfg.max_batch_operations
    max_bytes = bcfg.max_batch_size_bytes
    for k, c in enumerate(api_calls):
        if len(c["ids"]) > max_ops:
            viol.append(("count_limit", "stream", f"call {k} carries {len(c['ids'])} updates > {max_ops}"))
        if sum(c["sizes"]) > max_bytes and len(c["ids"]) != 1:
            viol.append(("size_limit", "stream", f"call {k} carries {sum(c['sizes'])} bytes in {len(c['ids'])} updates > {max_bytes}"))
    order = sorted(delivered, key=lambda i: delivered[i])
    pos = {i: n for n, i in enumerate(order)}
    for a in order:
        for b in order:
            if a == b:
                continue
            ca, cb = calls[a], calls[b]
            before = (ca["producer"] == cb["producer"] and ca["idx"] < cb["idx"]) or (ca["end"] is not None and ca["end"] < cb["start"])
            if before and pos[a] > pos[b]:
                viol.append(("reordered", "same-producer" if ca["producer"] == cb["producer"] else "cross-producer",
                             f"{a} was handed over before {b} but delivered after it; api={_brief(api_calls)}"))
    # non-triviality measures
    for k, c in enumerate(api_calls):
        pass
    tot = 0
    multi = len(api_calls) >= 2
    # overflow: some update whose size alone or cumulated exceeded the limit => more than one call needed for a burst
    over = any(v["size"] > max_bytes for v in calls.values()) or any(
        sum(c["sizes"]) + 1 > max_bytes * 0.5 and len(c["ids"]) >= 1 for c in api_calls
    )
    batched = any(len(c["ids"]) >= 2 for c in api_calls)
    info.update({"multi": multi, "over": over, "batched": batched, "oversize": any(v["size"] > max_bytes for v in calls.values())})
    seen = set()
    out = []
    for k, s_, d in viol:
        if (k, s_) not in seen:
            seen.add((k, s_))
            out.append({"kind": k, "site": s_, "detail": d})
    return out, info


def _brief(api_calls):
    return [(c["token"], c["ids"], sum(c["sizes"])) for c in api_calls][:12]


# --------------------------------------------------------------------------- generation


@st.composite
def scenarios(draw):
    default_cfg = draw(st.integers(0, 5)) == 0
    if default_cfg:
        cfg = None
        limit = 750 * 1024
        sizes = st.sampled_from([0, 10, 1000, 300 * 1024, 700 * 1024, 800 * 1024])
    else:
        limit = draw(st.sampled_from([150, 300, 600, 1500, 4096]))
        cfg = {
            "max_batch_size_bytes": limit,
            "max_batch_operations": draw(st.sampled_from([1, 2, 3, 5, 250])),
            "max_batch_time_seconds": draw(st.sampled_from([0.0, 0.05, 0.25, 1.0])),
        }
        base = 110  # serialized overhead of an update with empty payload is ~100 bytes
        sizes = st.one_of(
            st.sampled_from([0, 1, 20, max(0, limit // 2 - base), max(0, limit - base - 5), max(0, limit - base + 5), limit, 2 * limit, 3 * limit]),
            st.integers(0, 3 * limit),
        )
    op = st.one_of(
        st.tuples(st.just("sync"), sizes).map(list),
        st.tuples(st.just("async"), sizes).map(list),
        st.tuples(st.just("async"), sizes).map(list),
        st.just(["sync_empty"]),
        st.just(["async_empty"]),
        st.tuples(st.just("sleep"), st.sampled_from([0.0, 0.05, 0.15, 0.6, 1.5])).map(list),
    )
    scripts = draw(st.lists(st.lists(op, min_size=1, max_size=5), min_size=1, max_size=4))
    if draw(st.integers(0, 3)) == 0:
        # payload text outside ASCII: what counts is the size of the escaped JSON that is sent
        ch = draw(st.sampled_from(["\u00e9", "\u20ac", "\U0001f600"]))
        scripts = [[(o + [ch] if o[0] in ("sync", "async") else o) for o in sc] for sc in scripts]
    mode = draw(st.sampled_from(["walk", "walk", "pct", "seq", "seq"]))
    sd = draw(st.integers(0, 2**32))
    if mode == "walk":
        ch = {"mode": "walk", "seed": sd, "stick": draw(st.sampled_from([0.0, 0.6, 0.9]))}
    elif mode == "pct":
        ch = {"mode": "pct", "seed": sd, "depth": draw(st.integers(1, 3)), "horizon": draw(st.sampled_from([100, 400, 1500]))}
    else:
        ch = {"mode": "seq", "preempt": draw(st.lists(st.tuples(st.integers(1, 400), st.integers(0, 4)).map(list), max_size=4))}
    fail_call = draw(st.sampled_from([None, None, None, 0, 1, 2]))
    extra = {}
    if draw(st.integers(0, 3)) == 0:
        # paged checkpoint responses: the background thread issues get-state calls between "call succeeded" and
        # "waiters released"; one of those may fail
        extra = {"pages": draw(st.integers(1, 3)), "paged_calls": draw(st.sampled_from([None, [0], [1], [0, 2]])),
                 "fail_state_call": draw(st.sampled_from([None, None, 0, 1, 2]))}
    return {"scn": {"config": cfg, "scripts": scripts, "fail_call": fail_call, **extra}, "chooser": ch, "line": draw(st.sampled_from([False, False, True]))}


BOUNDED_CONFIGS = [
    {"config": {"max_batch_size_bytes": 300, "max_batch_operations": 2, "max_batch_time_seconds": 0.25},
     "scripts": [[["async", 20], ["sync", 20]], [["async", 20], ["sync", 150]]]},
    {"config": {"max_batch_size_bytes": 300, "max_batch_operations": 5, "max_batch_time_seconds": 0.05},
     "scripts": [[["async", 100], ["async", 100], ["sync", 100]], [["sync", 0]]]},
    {"config": {"max_batch_size_bytes": 200, "max_batch_operations": 3, "max_batch_time_seconds": 0.0},
     "scripts": [[["sync", 400]], [["async", 10], ["sync_empty"]]]},
    {"config": {"max_batch_size_bytes": 250, "max_batch_operations": 5, "max_batch_time_seconds": 0.25},
     "scripts": [[["async", 10], ["sync", 600]], [["async", 10]]]},
    # a failing backend call racing with a second producer that is between "checked the failed flag" and "enqueued"
    {"config": {"max_batch_size_bytes": 300, "max_batch_operations": 2, "max_batch_time_seconds": 0.0},
     "scripts": [[["async", 20]], [["sync", 20]]], "fail_call": 0},
    {"config": {"max_batch_size_bytes": 300, "max_batch_operations": 1, "max_batch_time_seconds": 0.05},
     "scripts": [[["sync", 20]], [["sync", 30]], [["async", 10]]], "fail_call": 0},
]


def _line_on():
    D.enable_line_mode([S, T])


def _report(ctx, scn, info, vs, sched_desc, sample_ok=True):
    nt = info["multi"] and (info["over"] or info["batched"])
    key = [scn, hash(tuple(info["trace"])) & 0xFFFFFFFF] if nt else None
    ctx.case(
        nontrivial_key=key,
        classes=[c for c, on in (("api>=2", info["multi"]), ("batched", info["batched"]), ("overflow-path", info["over"]),
                                 ("oversize-update", info["oversize"]), ("default-config", scn["config"] is None),
                                 ("failing-client", scn.get("fail_call") is not None)) if on],
        sample={"scenario": scn, "schedule": sched_desc, "api_calls": info["api_calls"], "steps": info["steps"]} if (nt and sample_ok) else None,
    )
    if info.get("inconclusive"):
        ctx.inconclusive += 1
    for v in vs:
        ctx.violation(v["kind"], v["site"], v["detail"], {"scn": scn, "chooser": {"mode": "trace", "choices": info["trace"]}, "line": sched_desc.get("line", False)})


def shard(ctx) -> None:
    b = ctx.budget
    _line_on()
    enum = {}
    for i, scn in enumerate(BOUNDED_CONFIGS):
        if ctx.nshards > 1 and i % ctx.nshards != ctx.shard % ctx.nshards:
            continue
        runs = 0
        for vs, info in D.explore_bounded(lambda ch, scn=scn: run_scenario(scn, ch), 2, max_runs=b["bounded_max_runs"]):
            runs += 1
            _report(ctx, scn, info, vs, {"mode": "bounded<=2", "n": runs}, sample_ok=runs % 301 == 1)
        enum[f"<=2 preemptions config#{i}"] = {"schedules": runs, "complete": runs < b["bounded_max_runs"]}
    ctx.extra.setdefault("enumerations", {}).update(enum)

    @seed(ctx.seed)
    @settings(max_examples=b["random_cases"], database=None, deadline=None, phases=[Phase.generate],
              suppress_health_check=list(HealthCheck), report_multiple_bugs=False)
    @given(scenarios())
    def t(case):
        vs, info = run_scenario(case["scn"], D.make_chooser(case["chooser"]), line_mode=case["line"])
        _report(ctx, case["scn"], info, vs, {**case["chooser"], "line": case["line"]})

    t()


def replay(case: dict) -> list[dict]:
    _line_on()
    vs, _ = run_scenario(case["scn"], D.make_chooser(case["chooser"]), line_mode=case.get("line", False))
    return vs
