"""C06 - checkpoint failure is fail-stop: no progress, no hang, no success."""
from __future__ import annotations

from hypothesis import HealthCheck, Phase, given, seed, settings
from hypothesis import strategies as st

from .. import wfcheck as WC
from .. import wfgen as G
from ..simbackend import FAULT_CLASSES, TERMINAL
from ._wf import install

META = {
    "id": "C06",
    "level": "fault_enumeration",
    "engine": "workflow",
    "rule": (
        "Case = generated program (sequential, child contexts, map/parallel with running, suspended and timer-resubmitted "
        "branches, retries, callbacks) x ONE failing backend call. For every generated program the fault-free execution is "
        "run first and then one execution per (invocation, API call index) with a generated error class (4xx, validation, "
        "invalid token, throttle, 5xx; on checkpoint or get-state calls) lost before or after being applied, under "
        "generated schedules (walk/pct, line-level preemption in state.py/threading.py/executor.py for a third of the "
        "cases). Oracle for the invocation in which the call failed: no backend call starts after it; the invocation "
        "finishes (deadlock and virtual-time cap are observable states, not timeouts); it raises iff the error class must "
        "trigger a Lambda retry by the documented table (4xx other than 429/invalid-token, and get-state failures), else "
        "returns FAILED with an error object; SUCCEEDED/PENDING is a violation exactly when a synchronous checkpoint of a "
        "non-orphan task was outstanding at, or issued after, the failure; every such caller is woken with the failure; no "
        "outcome without a backend record and no at-most-once entry without recorded start after the failure. Non-trivial "
        "= the failing call was issued while >=2 tasks besides the batcher were alive, or carried a branch's update; "
        "distinct = (program shape, fault, decision-trace hash)."
        " Plus LinePreempt sweeps over state.py/threading.py/executor.py for eight fixed programs with one failing call, including two in which the failing call returns at the instant a sleeping step body wakes (all tie-break orders)."
        " Constructed stage: the timer thread's refresh call fails while the done-callback of the last parking branch is publishing the suspend decision (one 0.35 s preemption per executed line of executor.py x failing call index)."
    ),
    "assumptions": ["the service client raises what a conforming boto client raises (.response with Error/ResponseMetadata)",
                    "classification table is the documented one: 4xx (not 429, not 'Invalid Checkpoint Token') => raise for retry; 429/5xx/invalid token => FAILED"],
    "budget": {
        "quick": {"shards": 4, "programs": 36, "max_points": 12, "random_cases": 60, "window_cases": 150, "sweep_limit": 600, "min_nontrivial": 25},
        "thorough": {"shards": 16, "programs": 250, "max_points": 40, "random_cases": 1200, "window_cases": 3000, "sweep_limit": 5000, "min_nontrivial": 900},
    },
}


def mon_c06(run, case):
    b = run.backend
    done_at = {}
    for h in run.handovers:
        u = h["upd"]
        if u and u["Type"] == "CONTEXT" and u["Action"] in ("SUCCEED", "FAIL") and u["Id"] not in done_at:
            done_at[u["Id"]] = h["clk"]

    def orphan(h):
        u = h["upd"]
        if not u:
            return False
        cur = u.get("ParentId")
        seen = set()
        while cur and cur not in seen:
            seen.add(cur)
            if cur in done_at and done_at[cur] < h["clk"]:
                return True
            cur = b.ops.get(cur, {}).get("ParentId")
        return False

    for inv in run.invocations:
        if inv.get("failed_at") is None:
            continue
        k = inv["inv"]
        fault = next((a.get("fault") for a in b.api if a["inv"] == k and a.get("fault")), None)
        fail_rec = next((a for a in b.api if a["inv"] == k and a.get("fault")), None)
        if fault is None:
            continue
        cls = fault["class"]
        site = f"{cls}:{fail_rec['kind']}"
        if inv.get("calls_after_failure", 0) > 0:
            run.v("C06", "api_call_after_failure", site, f"invocation {k}: {inv['calls_after_failure']} backend call(s) started after call #{inv['failed_at']} failed")
        if inv.get("outcome") in ("deadlock", "time_cap"):
            run.v("C06", "hang_after_checkpoint_failure", inv["outcome"] + ":" + _where(inv),
                  f"invocation {k} never returned after backend call #{inv['failed_at']} failed ({cls}): blocked {inv.get('deadlock_info')}")
            continue
        if inv.get("outcome") in ("crashed", "step_cap"):
            continue
        expected = "raise" if fail_rec["kind"] == "get_state" else FAULT_CLASSES[cls][3]
        t_fail = fail_rec.get("fail_clk", 0)
        affected = [h for h in run.handovers if h["inv"] == k and h["sync"] and not orphan(h)
                    and (h["clk"] > t_fail or h.get("ret_clk", 10**12) > t_fail)]
        accepted = {(e["upd"]["Id"], e["upd"]["Action"]) for e in b.log if e["inv"] == k}
        for h in affected:
            if not h["returned"]:
                continue
            u = h["upd"]
            # outstanding at the failure but carried by an earlier, successful call: a legitimate success
            if h["clk"] < t_fail and u is not None and (u["Id"], u["Action"]) in accepted:
                continue
            if h["clk"] < t_fail and u is None:
                continue
            if True:
                run.v("C06", "sync_checkpoint_succeeded_after_failure", site,
                      f"invocation {k}: a synchronous checkpoint ({(h['upd'] or {}).get('Type')}:{(h['upd'] or {}).get('Action')}) outstanding at / issued after the failed call returned normally")
                break
        affected = [h for h in affected if not (h["clk"] < t_fail and h["returned"] and (h["upd"] is None or (h["upd"]["Id"], h["upd"]["Action"]) in accepted))]
        out = inv.get("outcome")
        if out in ("SUCCEEDED", "PENDING"):
            if affected:
                run.v("C06", "success_or_pending_after_failure", f"{out}:{site}",
                      f"invocation {k} returned {out} although backend call #{inv['failed_at']} failed ({cls}) with {len(affected)} synchronous checkpoint(s) affected")
        elif out == "raised":
            if expected != "raise":
                run.v("C06", "wrong_classification", f"raised:{site}", f"invocation {k} raised {inv.get('raised')} for a {cls} failure; expected FAILED")
        elif out == "FAILED":
            if expected == "raise":
                run.v("C06", "wrong_classification", f"FAILED:{site}", f"invocation {k} returned FAILED for a {cls} failure; expected a raise (Lambda retry)")
            elif not (inv.get("output") or {}).get("Error"):
                run.v("C06", "failed_without_error_object", site, f"invocation {k}: {inv.get('output')}")
        # outcomes after the failure must have a record; at-most-once entries must have a recorded start
        for o in run.obs:
            if o["inv"] == k and o["clk"] > t_fail and o["out"] in ("value", "exc") and o.get("backend_status") is not None and o["backend_status"] not in TERMINAL:
                if o["out"] == "exc" and o["exc"] in ("CheckpointError", "InvalidStateError"):
                    continue
                run.v("C06", "outcome_without_record_after_failure", o["kind"], f"{o['path']}: delivered {o['out']} after the failure while backend status is {o['backend_status']}")
        for v in run.violations:
            if v["property"] == "C04" and v["kind"] == "entered_without_recorded_start" and f"invocation {k})" in v["detail"]:
                run.v("C06", "at_most_once_entered_without_start_after_failure", v["site"], v["detail"])
                break


def _where(inv):
    names = [n for n, _ in (inv.get("deadlock_info") or [])]
    if any(n.startswith("ThreadPoolExecutor") for n in names) or any("MThread" in n for n in names):
        return "map/parallel"
    return "sequential"


@st.composite
def programs(draw):
    k = draw(st.integers(0, 3))
    if k == 0:
        return draw(G.programs(max_stmts=4, features=("step", "wait", "child", "callback", "wfcond")))
    vals = G.tagged_values()
    step = G.steps(vals, allow_fail=True)
    branch = st.lists(st.one_of(step, step, G.waits(3), st.builds(lambda b: {"op": "child", "body": b}, st.lists(step, min_size=1, max_size=2))), min_size=1, max_size=3)
    par = st.builds(lambda brs, mc: {"op": "parallel", "branches": brs, "cfg": {"max_concurrency": mc, "completion": {"min": None, "tol": len(brs), "pct": None}}},
                    st.lists(branch, min_size=2, max_size=3), st.sampled_from([None, None, 1, 2]))
    mp = st.builds(lambda items, b: {"op": "map", "items": items, "body": b, "cfg": {"completion": {"min": None, "tol": len(items), "pct": None}}},
                   st.lists(vals, min_size=2, max_size=3), branch)
    body = draw(st.lists(st.one_of(par, par, mp, step), min_size=1, max_size=2))
    return {"body": body}


@st.composite
def cases(draw):
    return {
        "prog": draw(programs()),
        "backend": draw(G.backend_cfgs()),
        "plan": {"crashes": [], "faults": [{"inv": draw(st.integers(0, 2)), "api": draw(st.integers(0, 6)), "class": draw(st.sampled_from(sorted(FAULT_CLASSES))),
                                            "when": draw(st.sampled_from(["before", "before", "after"]))}]},
        "sched": draw(G.schedules()),
        "line": draw(st.sampled_from([[], [], ["state"], ["threading", "state"], ["executor"]])),
        "max_raises": 1,
    }


def nontrivial(run, case):
    b = run.backend
    for inv in run.invocations:
        if inv.get("failed_at") is None:
            continue
        rec = next((a for a in b.api if a["inv"] == inv["inv"] and a.get("fault")), None)
        if rec is None:
            continue
        branchy = any((u.get("SubType") in ("ParallelBranch", "MapIteration")) or (u.get("ParentId") and b.ops.get(u["ParentId"], {}).get("SubType") in ("ParallelBranch", "MapIteration"))
                      for u in rec.get("updates", ()))
        if branchy or rec.get("live_tasks", 0) >= 3:
            tr = inv.get("trace", [])
            return [G.shape_of(case["prog"]), case["plan"]["faults"], hash(tuple(tr)) & 0xFFFFFF]
    return None


def classes(run, case):
    out = []
    for inv in run.invocations:
        if inv.get("failed_at") is not None:
            out.append("fault-hit")
            out.append("after-fault:" + str(inv.get("outcome")))
    return out


def _enumerate(ctx):
    b = ctx.budget
    n_prog = max(1, b["programs"] // max(1, ctx.nshards))
    total = [0]

    @seed(ctx.seed + 13)
    @settings(max_examples=n_prog, database=None, deadline=None, phases=[Phase.generate], suppress_health_check=list(HealthCheck))
    @given(cases(), st.randoms(use_true_random=False))
    def t(base, rnd):
        free = {**base, "plan": {"crashes": [], "faults": []}}
        r0 = WC.report_case(ctx, free, PROPS, nontrivial=nontrivial, classes=classes, extra_monitors=(mon_c06,))
        pts = []
        for inv in r0.invocations[:3]:
            for i in range(inv.get("api_calls", 0)):
                pts.append((inv["inv"], i))
        rnd.shuffle(pts)
        for (k, i) in pts[: b["max_points"]]:
            f = {"inv": k, "api": i, "class": rnd.choice(sorted(FAULT_CLASSES)), "when": rnd.choice(["before", "before", "after"])}
            WC.report_case(ctx, {**base, "plan": {"crashes": [], "faults": [f]}}, PROPS, nontrivial=nontrivial, classes=classes, extra_monitors=(mon_c06,))
            total[0] += 1

    t()
    ctx.extra["fault_points_enumerated"] = total[0]


_big = st.builds(lambda n, sl: {"op": "step", "beh": {"kind": "big", "n": n}, "sem": "least", "retry": {"kind": "none"}, **({"sleep": sl} if sl else {})},
                 st.sampled_from([390 * 1024, 420 * 1024, 500 * 1024, 800 * 1024]), st.sampled_from([0, 0, 0.1]))


@st.composite
def window_cases(draw):
    """Failures that hit while another caller is in the middle of create_checkpoint (backend latency + sleeping step
    bodies make the instants coincide), and failures while the overflow queue is in use (large payloads)."""
    vals = G.tagged_values()
    sl_step = st.builds(lambda v, sl, sem: {"op": "step", "beh": {"kind": "ret", "v": v}, "sem": sem, "retry": {"kind": "none"}, "sleep": sl},
                        vals, st.sampled_from([0.1, 0.2, 0.3, 0.4]), st.sampled_from(["least", "least", "most"]))
    kind = draw(st.sampled_from(["seq", "seq", "par", "big", "bigseq"]))
    if kind == "seq":
        body = draw(st.lists(sl_step, min_size=1, max_size=3))
    elif kind == "par":
        body = [{"op": "parallel", "branches": draw(st.lists(st.lists(sl_step, min_size=1, max_size=2), min_size=2, max_size=3)), "cfg": {"completion": {"min": None, "tol": 3, "pct": None}}}]
    elif kind == "big":
        body = [{"op": "parallel", "branches": [[draw(_big)], [draw(_big)]] + ([[draw(sl_step)]] if draw(st.booleans()) else []), "cfg": {"completion": {"min": None, "tol": 3, "pct": None}}}]
    else:
        body = [draw(_big), draw(sl_step)]
    return {
        "prog": {"body": body},
        "backend": {"response": "delta", "api_latency": draw(st.sampled_from([0.1, 0.1, 0.2, 0.0]))},
        "plan": {"crashes": [], "faults": [{"inv": 0, "api": draw(st.integers(0, 3)), "class": draw(st.sampled_from(sorted(FAULT_CLASSES))), "when": draw(st.sampled_from(["before", "before", "after"]))}]},
        "sched": [draw(st.one_of(st.builds(lambda sd, k: {"mode": "walk", "seed": sd, "stick": k}, st.integers(0, 2**31), st.sampled_from([0.0, 0.0, 0.5])),
                                 st.builds(lambda sd, d: {"mode": "pct", "seed": sd, "depth": d, "horizon": 300}, st.integers(0, 2**31), st.integers(1, 3))))],
        "line": draw(st.sampled_from([[], [], ["state"]])),
        "max_raises": 1,
    }


def _window_stage(ctx):
    WC.run_generated(ctx, window_cases(), PROPS, n_cases=ctx.budget.get("window_cases", 150), nontrivial=nontrivial, classes=classes,
                     extra_monitors=(mon_c06,), seed_offset=17)


def _sweep_stage(ctx):
    """One long preemption at every executed source line of state.py/threading.py/executor.py while one backend call fails."""
    from .c03 import _S

    bases = [
        ("step; fault 0", [_S(1)], 0, ["state", "threading"]),
        ("step, step(at-most-once); fault 1", [_S(1), _S(2, sem="most")], 1, ["state", "threading"]),
        ("parallel{step,step}; fault 0", [{"op": "parallel", "branches": [[_S(1)], [_S(2)]], "cfg": {"completion": {"min": None, "tol": 2, "pct": None}}}], 0, ["state", "executor"]),
        ("parallel{step,step}; fault 1", [{"op": "parallel", "branches": [[_S(1)], [_S(2)]], "cfg": {"completion": {"min": None, "tol": 2, "pct": None}}}], 1, ["threading", "executor"]),
        ("parallel{wait(1)+step | slow step}; fault 2", [{"op": "parallel", "branches": [[{"op": "wait", "secs": 1}, _S(1)], [_S(2, sleep=2.5)]],
                                                           "cfg": {"completion": {"min": None, "tol": 2, "pct": None}}}], 2, ["executor", "state"]),
        ("child{step}, wait; fault 1", [{"op": "child", "body": [_S(1)]}, {"op": "wait", "secs": 1}], 1, ["state", "threading"]),
    ]
    # the failing call returns at the very instant a sleeping step body wakes up: the caller can be inside create_checkpoint
    # while the batcher handles the failure (both task orders are swept)
    bases += [
        ("coincident: step(sleep .2), latency .1; fault 0", [_S(1, sleep=0.2)], 0, ["state"]),
        ("coincident: step(sleep .2), step(sleep .3), latency .1; fault 1", [_S(1, sleep=0.2), _S(2, sleep=0.3)], 1, ["state", "threading"]),
    ]
    for i, (label, body, api, line) in enumerate(bases):
        if ctx.nshards > 1 and i % ctx.nshards != ctx.shard % ctx.nshards:
            continue
        cls = sorted(FAULT_CLASSES)[i % len(FAULT_CLASSES)]
        coincident = label.startswith("coincident")
        base = {"prog": {"body": body}, "backend": {"response": "delta", "api_latency": 0.1 if coincident else 0.0},
                "plan": {"crashes": [], "faults": [{"inv": 0, "api": api, "class": cls, "when": "before"}]}, "line": line, "max_raises": 1}
        for order in (("low", "high", "rand:1", "rand:2", "rand:3") if coincident else ("low",)):
            WC.line_preempt_sweep(ctx, base, PROPS, nontrivial=nontrivial, classes=lambda r, c: ["one-long-preemption-at-a-line"] + classes(r, c), extra_monitors=(mon_c06,),
                                  limit=ctx.budget.get("sweep_limit", 700), order=order,
                                  label=f"one long preemption per line of {'/'.join(line)}: {label} ({cls}, {order} id first)")


def _resubmission_faults(ctx):
    """Fault enumeration over programs whose branches are resubmitted by the executor's timer thread inside the
    invocation: every backend call - including the empty state-refresh calls issued from the timer thread - fails once."""
    from .c03 import _S

    retry = {"op": "step", "beh": {"kind": "fail_by_attempt", "k": 1, "err": "UserError", "v": 1}, "sem": "least", "retry": {"kind": "table", "max": 3, "delays": [1], "nonretry": []}}
    tol = {"completion": {"min": None, "tol": 3, "pct": None}}
    bases = [
        ("parallel{retrying step | slow step}", [{"op": "parallel", "branches": [[retry], [_S(2, sleep=2.5)]], "cfg": tol}]),
        ("parallel{wait 1; step | slow step}", [{"op": "parallel", "branches": [[{"op": "wait", "secs": 1}, _S(1)], [_S(2, sleep=2.5)]], "cfg": tol}]),
        # the last branch parks at about the instant the first branch's timer is due: the timer thread's refresh call is in
        # flight while the suspend decision is being published
        *[(f"parallel{{wait 1; step | step(sleep {sl}); wait 1; step}}", [{"op": "parallel", "branches": [[{"op": "wait", "secs": 1}, _S(1)], [_S(2, sleep=sl), {"op": "wait", "secs": 1}, _S(3)]], "cfg": tol}])
          for sl in (0.7, 0.8, 0.9, 1.0)],
        ("map[2]{wfcond poll twice} next to a slow step", [{"op": "parallel", "branches": [[{"op": "wfcond", "init": 0, "decisions": [["continue", 1], ["stop"]], "trans": "count"}], [_S(2, sleep=2.5)]], "cfg": tol}]),
    ]
    total = 0
    for i, (label, body) in enumerate(bases):
        if ctx.nshards > 1 and i % ctx.nshards != ctx.shard % ctx.nshards:
            continue
        base = {"prog": {"body": body}, "backend": {"response": "delta"}, "plan": {"crashes": [], "faults": []}, "sched": [{"mode": "seq"}], "line": [], "max_raises": 1}
        total += WC.enumerate_faults(ctx, base, PROPS, nontrivial=nontrivial, classes=lambda r, c: ["fault-enumeration:timer-resubmission"] + classes(r, c),
                                     extra_monitors=(mon_c06,), fault_classes=("server5xx", "client4xx"), max_inv=1, max_api=14, limit=120)
    ctx.extra["resubmission_fault_points"] = total


def _resubmission_race(ctx):
    """The timer thread's refresh call fails WHILE the done-callback of the last parking branch is deciding to suspend:
    one long (0.35 virtual s) preemption at every executed line of executor.py, for each failing call from the third one
    on, over programs whose second branch parks shortly before the first branch's timer is due. The preempted callback
    has read 'every branch is parked'; meanwhile the timer fires, the refresh call fails, and both outcomes (failure,
    suspension) are published - the failure must win (no PENDING after a failed checkpoint call)."""
    from .c03 import _S

    tol = {"completion": {"min": None, "tol": 3, "pct": None}}
    n = 0
    combos = [(sl, api) for sl in (0.8, 0.9) for api in (2, 3, 4)]
    for i, (sl, api) in enumerate(combos):
        if ctx.nshards > 1 and i % ctx.nshards != ctx.shard % ctx.nshards:
            continue
        body = [{"op": "parallel", "branches": [[{"op": "wait", "secs": 1}, _S(1)], [_S(2, sleep=sl), {"op": "wait", "secs": 1}, _S(3)]], "cfg": tol}]
        cls = ("server5xx", "client4xx", "throttle")[i % 3] if "throttle" in FAULT_CLASSES else ("server5xx", "client4xx")[i % 2]
        base = {"prog": {"body": body}, "backend": {"response": "delta"},
                "plan": {"crashes": [], "faults": [{"inv": 0, "api": api, "class": cls, "when": "before"}]}, "line": ["executor"], "max_raises": 1}
        r, _ = WC.line_preempt_sweep(ctx, base, PROPS, nontrivial=nontrivial, classes=lambda r, c: ["resubmission-failure-races-suspend-decision"] + classes(r, c),
                                     extra_monitors=(mon_c06,), limit=ctx.budget.get("race_limit", 260), stall=0.35,
                                     label=f"0.35 s preemption per line of executor.py: parallel{{wait 1; step | step(sleep {sl}); wait 1; step}}, call #{api} fails ({cls})")
        n += r
    ctx.extra["resubmission_race_runs"] = n


install(globals(), props=("C06",), cases=cases, nontrivial=nontrivial, classes=classes, extra_monitors=(mon_c06,), stages=(_enumerate, _window_stage, _resubmission_faults, _resubmission_race, _sweep_stage))
