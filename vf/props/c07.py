"""C07 - suspension is sound and live: PENDING only when durably parked, and never stuck."""
from __future__ import annotations

from hypothesis import strategies as st

from .. import wfgen as G
from ._wf import install

META = {
    "id": "C07",
    "level": "exploration",
    "engine": "workflow",
    "rule": (
        "Case = program mixing waits, step retries, callbacks, wait_for_callback, invokes and wait_for_condition at top level "
        "and inside nested map/parallel (with and without max_concurrency, with early-completion policies), branch user "
        "functions containing yield points and virtual sleeps so that they can be in flight, x schedules (walk/pct/seq, "
        "line-level preemption in executor.py/models.py for a quarter of the cases) x timer lag 0-2 s, backend latency, "
        "external-party delivery orders x crashes. Oracle: at every PENDING return each suspended non-orphan position is "
        "parked on a wake source the backend holds as armed (WAIT/CALLBACK/CHAINED_INVOKE STARTED, STEP PENDING) or "
        "already fired; no non-orphan user function that was already running when the last other branch finished/parked "
        "is still executing; driven by a backend that fires timers and delivers events the execution reaches SUCCEEDED/"
        "FAILED within the program-derived invocation bound; no invocation ends in deadlock, or beyond the virtual-time "
        "cap (400 s; generated in-invocation delays are <= 20 s) without a record accepted in its last 40 %, or at the step cap "
        "with virtual time standing still (spinning without blocking); a map/parallel call never suspends to its caller while one "
        "of its branch bodies is executing, and none of its branches is started afterwards; a branch parked on an external "
        "party only is not run again while that operation is outstanding. Extra stage: LinePreempt sweeps (plain and with "
        "the preempted task descheduled for 0.3 s) over executor.py for a branch that re-parks on an already-due resume "
        "time (backend timers lag 0.5 / 2 s) next to a finishing sibling, at top level and inside an outer map. Non-trivial = a PENDING return with >=2 branches parked "
        "on different kinds of wake source, or a branch body re-entered within one invocation (timer resubmission); "
        "distinct = (program shape, invocation outcomes, decision-trace hash of the first invocation)."
    ),
    "assumptions": [
        "external parties answer at a generated instant, but always answer (liveness is relative to a live backend)",
        "a branch orphaned by an already decided completion policy may keep running (C09/C10 cover it)",
    ],
    "budget": {
        "quick": {"shards": 4, "random_cases": 170, "sweep_limit": 500, "min_nontrivial": 40},
        "thorough": {"shards": 16, "random_cases": 5000, "sweep_limit": 4000, "min_nontrivial": 1500},
    },
}


@st.composite
def cases(draw):
    vals = G.tagged_values()
    step = G.steps(vals, allow_fail=True)
    leaf = st.one_of(step, step, G.waits(6), G.wfconds(3), st.just({"op": "wfcb"}),
                     st.builds(lambda b: {"op": "callback", "between": b}, st.lists(step, max_size=1)),
                     st.builds(lambda p, to: {"op": "invoke", "fn": "f", "payload": p, **({"timeout": to} if to else {})}, G.json_values, st.sampled_from([0, 0, 5])))
    branch = st.lists(leaf, min_size=1, max_size=3)

    def batch(inner):
        return st.one_of(
            st.lists(inner, min_size=2, max_size=4).flatmap(lambda brs: st.builds(
                lambda mc, comp: {"op": "parallel", "branches": brs, "cfg": {"max_concurrency": mc, "completion": comp}},
                st.sampled_from([None, None, 1, 2]), st.one_of(st.just({"min": None, "tol": len(brs), "pct": None}), G.completion_cfgs(len(brs))))),
            st.builds(lambda items, b, mc: {"op": "map", "items": items, "body": b, "cfg": {"max_concurrency": mc, "completion": {"min": None, "tol": len(items), "pct": None}}},
                      st.lists(vals, min_size=2, max_size=3), inner, st.sampled_from([None, 1, 2])),
        )

    nested = st.lists(st.one_of(leaf, leaf, batch(branch)), min_size=1, max_size=2)
    # a branch that parks on a short timer (wait / retry back-off) next to siblings that are still inside a user
    # function when the timer fires (and, with timer lag, when the branch re-parks with an already-due timestamp)
    parker = st.one_of(
        st.just([{"op": "wait", "secs": 1}]),
        st.builds(lambda k, d: [{"op": "step", "beh": {"kind": "fail_by_attempt", "k": k, "err": "UserError", "v": 1}, "sem": "least",
                                 "retry": {"kind": "table", "max": 4, "delays": [d], "nonretry": []}}], st.integers(1, 2), st.sampled_from([0, 1, 1, 2])),
        st.just([{"op": "wfcond", "init": 0, "decisions": [["continue", 1], ["continue", 0], ["stop"]], "trans": "count"}]),
        # parked on an external party (no timer at all) next to a sibling that is still running
        st.just([{"op": "callback", "between": []}]),
        st.just([{"op": "wfcb"}]),
        st.builds(lambda to: [{"op": "invoke", "fn": "f", "payload": 1, **({"timeout": to} if to else {})}], st.sampled_from([0, 0, 2])),
    )
    runner = st.builds(lambda sl, y: [{"op": "step", "beh": {"kind": "ret", "v": 5}, "sem": "least", "retry": {"kind": "none"}, "sleep": sl, "yields": y}],
                       st.sampled_from([1.5, 2.5, 3.5, 5.0]), st.integers(0, 2))
    inflight = st.lists(st.one_of(parker, parker, runner), min_size=2, max_size=4).filter(lambda bs: any("sleep" in b[0] for b in bs) and any("sleep" not in b[0] for b in bs)).map(
        lambda bs: {"op": "parallel", "branches": bs, "cfg": {"max_concurrency": None, "completion": {"min": None, "tol": len(bs), "pct": None}}})
    body = draw(st.lists(st.one_of(leaf, batch(branch), batch(branch), batch(nested), inflight, inflight), min_size=1, max_size=3))
    return {
        "prog": {"body": body},
        "backend": draw(G.backend_cfgs()),
        "plan": {"crashes": draw(G.crash_plans(max_crashes=1))},
        "sched": draw(G.schedules()),
        "line": draw(st.sampled_from([[], [], [], ["executor", "models"]])),
    }


def _park_kinds(run, inv):
    last = {}
    for o in run.obs:
        if o["inv"] == inv:
            last[o["path"]] = o
    return sorted({o["kind"] for o in last.values() if o["out"] == "suspend" and o["kind"] in ("wait", "step", "callback_result", "invoke", "wfcond")})


def nontrivial(run, case):
    ok = False
    for i in run.invocations:
        if i.get("outcome") == "PENDING" and len(_park_kinds(run, i["inv"])) >= 2:
            ok = True
    seen = set()
    for e in run.entries:
        if e["kind"] == "branch":
            k = (e["path"], e["inv"])
            if k in seen:
                ok = True
            seen.add(k)
    if not ok:
        return None
    return [G.shape_of(case["prog"]), [i.get("outcome") for i in run.invocations], hash(tuple(run.invocations[0].get("trace", []))) & 0xFFFFFF]


def classes(run, case):
    out = []
    seen = set()
    for e in run.entries:
        if e["kind"] == "branch":
            k = (e["path"], e["inv"])
            if k in seen:
                out.append("in-invocation-resubmission")
            seen.add(k)
    if any(i.get("outcome") == "PENDING" and len(_park_kinds(run, i["inv"])) >= 2 for i in run.invocations):
        out.append("pending-with-mixed-park-states")
    if any(i.get("active_user_at_end") for i in run.invocations):
        out.append("user-function-running-at-return")
    return sorted(set(out))


def _lag_sweep(ctx):
    """A branch that re-parks on a resume time that is already due (the backend fires its timers late) next to a sibling
    that finishes: one long preemption at every executed line of executor.py, plain and with the preempted task
    descheduled for 0.3 virtual seconds, at top level and inside an outer map."""
    from .. import wfcheck as WC

    retry = {"op": "step", "beh": {"kind": "fail_by_attempt", "k": 1, "err": "UserError", "v": 1}, "sem": "least", "retry": {"kind": "table", "max": 3, "delays": [1], "nonretry": []}}
    slow = {"op": "step", "beh": {"kind": "ret", "v": 7}, "sem": "least", "retry": {"kind": "none"}, "sleep": 1.5}
    most = {"op": "step", "beh": {"kind": "ret", "v": 1}, "sem": "most", "retry": {"kind": "none"}, "yields": 1}
    tol = {"max_concurrency": None, "completion": {"min": None, "tol": 3, "pct": None}}
    inner = {"op": "parallel", "branches": [[retry, most], [slow]], "cfg": tol}
    bases = [("parallel{retrying step; at-most-once step | slow step}", [inner]),
             ("map[2]{parallel{retrying step; at-most-once step | slow step}}", [{"op": "map", "items": [1, 2], "body": [inner], "cfg": tol}])]
    n = 0
    for i, (label, body) in enumerate(bases):
        for lag in (0.5, 2.0):
            for order, stall in (("low", 0.0), ("high", 0.3)):
                n += 1
                if ctx.nshards > 1 and n % ctx.nshards != ctx.shard % ctx.nshards:
                    continue
                base = {"prog": {"body": body}, "backend": {"response": "delta", "timer_lag": lag}, "plan": {"crashes": []}, "line": ["executor"]}
                WC.line_preempt_sweep(ctx, base, PROPS, nontrivial=nontrivial, classes=lambda r, c: ["one-long-preemption-at-a-line", "lagging-backend-timer"] + classes(r, c),
                                      limit=ctx.budget.get("sweep_limit", 500), order=order, stall=stall,
                                      label=f"one long preemption per line of executor.py ({order}, stall {stall}s), timer lag {lag}s: {label}")


install(globals(), props=("C07",), cases=cases, nontrivial=nontrivial, classes=classes, stages=(_lag_sweep,))
