"""C08 - operation identity is deterministic, schedule-independent and collision-free."""
from __future__ import annotations

import copy

from hypothesis import strategies as st

from .. import wfcheck as WC
from .. import wfgen as G
from ..monitors import identity_table
from ._wf import install

META = {
    "id": "C08",
    "level": "exploration",
    "engine": "workflow",
    "rule": (
        "Case = generated program shape (deep nesting of child contexts, wide map/parallel, callbacks, wait_for_callback) "
        "run to the end under TWO independently generated schedules/interruption patterns (crash plans, paging). Oracle "
        "(relational, no re-implementation of the hash): the identity table built from the arrival log, keyed by the "
        "structural path the program encodes in Name, must be a function path->id within one execution across all its "
        "invocations, the same function in both executions, injective (no two positions share an id) and every update's "
        "ParentId must be the id recorded for the enclosing context's path (absent at the root). Non-trivial = program "
        "with >=2 concurrent branches whose completion order differs between the two schedules, or >=3 invocations; "
        "distinct = (program shape, the two invocation-outcome patterns)."
        " Plus a stage in which 2-3 user threads issue steps on ONE context (walk/pct schedules, line-level yield points in threading.py): no two operations may share an identifier. Plus LinePreempt sweeps over every executed line of context.py (identifier derivation, step counters) for a parallel and a map whose branch threads derive their identifiers from one shared context; a quarter of the generated cases run with context.py in line mode."
    ),
    "assumptions": ["paths are the interpreter's structural positions; branch contexts are located by (parent path, index from the SDK's branch name)"],
    "budget": {
        "quick": {"shards": 4, "random_cases": 80, "shared_cases": 70, "sweep_limit": 500, "min_nontrivial": 30},
        "thorough": {"shards": 16, "random_cases": 2500, "shared_cases": 1500, "sweep_limit": 4000, "min_nontrivial": 800},
    },
}


@st.composite
def cases(draw):
    prog = draw(G.programs(max_stmts=6, depth=3, features=("step", "wait", "child", "parallel", "map", "callback", "wfcb", "wfcond", "try")))
    return {
        "prog": prog,
        "limits": draw(st.sampled_from([{}, {}, {}, {"checkpoint": 300}, {"checkpoint": 120}])),
        "backend": draw(G.backend_cfgs()),
        "plan": {"crashes": draw(G.crash_plans(max_crashes=1))},
        "sched": draw(G.schedules()),
        "line": draw(st.sampled_from([[], [], ["threading"], ["context"]])),
        "alt": {"backend": draw(G.backend_cfgs()), "plan": {"crashes": draw(G.crash_plans(max_crashes=2))}, "sched": draw(G.schedules())},
    }


def pair_monitor(run, case):
    alt = case.get("alt")
    if not alt:
        return
    c2 = {**{k: v for k, v in case.items() if k != "alt"}, **copy.deepcopy(alt)}
    run2 = WC.run_execution(c2)
    run.alt = run2

    def caught(r):
        return {o["path"] for o in r.obs if o["kind"] == "try" and o["out"] == "caught"}

    if caught(run) != caught(run2):
        # the two interruption patterns legitimately led the program down different paths (e.g. an at-most-once step
        # that was interrupted in one of them fails there and its except-handler runs durable operations): positions
        # are comparable only under the same control flow
        run.control_flow_differs = True
        return
    a, _ = identity_table(run)
    b, _ = identity_table(run2)
    for p in sorted(set(a) & set(b)):
        if a[p] != b[p]:
            run.v("C08", "identifier_depends_on_schedule", "pair", f"{p}: {sorted(i[:10] for i in a[p])} in one execution, {sorted(i[:10] for i in b[p])} under another schedule/interruption pattern")
            break
    ids_a = {}
    for p, ids in list(a.items()) + list(b.items()):
        for i in ids:
            if i in ids_a and ids_a[i] != p:
                run.v("C08", "identifier_shared_by_two_positions", "pair", f"id {i[:10]} used for {ids_a[i]} and {p}")
                return
            ids_a[i] = p


def _order(run):
    return [(o["path"]) for o in run.obs if o["kind"] in ("step",) and o["out"] == "value"]


def nontrivial(run, case):
    r2 = getattr(run, "alt", None)
    if r2 is None:
        return None
    conc = any(s["op"] in ("parallel", "map") for _, s in G.program_paths(case["prog"]))
    differs = _order(run) != _order(r2)
    if not ((conc and differs) or len(run.invocations) >= 3):
        return None
    return [G.shape_of(case["prog"]), [i.get("outcome") for i in run.invocations], [i.get("outcome") for i in r2.invocations]]


def classes(run, case):
    r2 = getattr(run, "alt", None)
    out = []
    if r2 is not None and _order(run) != _order(r2):
        out.append("completion-order-differs")
    if getattr(run, "control_flow_differs", False):
        out.append("pair-skipped:except-handlers-taken-differ")
    return out


@st.composite
def shared_context_cases(draw):
    """Several user threads issue steps on ONE context: identifiers must still be distinct per operation."""
    vals = G.tagged_values()
    step = G.steps(vals, allow_fail=False, sems=("least",))
    n = draw(st.integers(2, 3))
    bodies = [draw(st.lists(step, min_size=1, max_size=3)) for _ in range(n)]
    stmt = {"op": "threads", "bodies": bodies}
    body = [stmt] if draw(st.booleans()) else [{"op": "child", "body": [stmt]}]
    return {"prog": {"body": body}, "backend": {"response": "delta"}, "plan": {"crashes": []},
            "sched": [draw(st.one_of(st.builds(lambda sd: {"mode": "walk", "seed": sd, "stick": 0.0}, st.integers(0, 2**31)),
                                     st.builds(lambda sd, d: {"mode": "pct", "seed": sd, "depth": d, "horizon": 800}, st.integers(0, 2**31), st.integers(1, 3))))],
            "line": ["threading"]}


def _shared_stage(ctx):
    WC.run_generated(ctx, shared_context_cases(), PROPS, n_cases=ctx.budget.get("shared_cases", 60), nontrivial=lambda r, c: ["shared", G.shape_of({"body": c["prog"]["body"]}) if False else len(r.backend.log), hash(tuple(r.invocations[0].get("trace", []))) & 0xFFFF],
                     classes=lambda r, c: ["shared-context-threads"], seed_offset=31)


def _sweep_stage(ctx):
    """One long preemption at every executed source line of context.py (identifier derivation, counters) for maps and
    parallels whose branch threads derive their identifiers from ONE shared context."""
    from .c03 import _S

    bases = [
        ("parallel{step|step|step}", [{"op": "parallel", "branches": [[_S(1)], [_S(2)], [_S(3)]], "cfg": {"completion": {"min": None, "tol": 3, "pct": None}}}]),
        ("child{map[3]{step}}; step", [{"op": "child", "body": [{"op": "map", "items": [1, 2, 3], "body": [_S(1)], "cfg": {"max_concurrency": None, "completion": {"min": None, "tol": 3, "pct": None}}}]}, _S(9)]),
    ]
    for i, (label, body) in enumerate(bases):
        if ctx.nshards > 1 and i % ctx.nshards != ctx.shard % ctx.nshards:
            continue
        base = {"prog": {"body": body}, "backend": {"response": "delta"}, "plan": {"crashes": []}, "line": ["context"]}
        for order in ("low", "high"):
            WC.line_preempt_sweep(ctx, base, PROPS, nontrivial=lambda r, c: None, classes=lambda r, c: ["one-long-preemption-at-a-line"],
                                  limit=ctx.budget.get("sweep_limit", 500), order=order, label=f"one long preemption per line of context.py ({order}): {label}")


install(globals(), props=("C08",), cases=cases, nontrivial=nontrivial, classes=classes, extra_monitors=(pair_monitor,), stages=(_shared_stage, _sweep_stage))
