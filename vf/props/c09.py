"""C09 - map/parallel honour the completion policy and report branches faithfully."""
from __future__ import annotations

import itertools

from hypothesis import HealthCheck, Phase, given, seed, settings
from hypothesis import strategies as st

from .. import wfcheck as WC
from .. import wfgen as G
from ..monitors import replay_children_started_item_pattern
from ..values import teq, to_tagged, from_tagged
from ._wf import install

META = {
    "id": "C09",
    "level": "exploration",
    "engine": "workflow",
    "rule": (
        "Case = one map or parallel call (0-6 branches) with a generated CompletionConfig (min_successful in {None,1..n+1} "
        "x tolerated count {None,0..n} x tolerated percentage {None,0,25,50,100}, plus the presets and 'no config'), "
        "max_concurrency {None,1..n+1}, per-branch behaviour {succeed v, succeed with a result larger than the checkpoint limit (patched to 600 from the test side), fail e, suspend on a wait/callback, park on a 1 s timer and get resumed inside the invocation, slow, block on "
        "a gate that is opened only AFTER the call returned (only for branches the policy does not need and never under a "
        "tighter concurrency limit)}, completion order chosen by the schedule, followed by a wait so that the next "
        "invocation replays the call. Oracle vs per-branch ground truth and an independent reference of the policy: one "
        "item per input in order; SUCCEEDED items carry the branch's value, FAILED items its error message, unfinished "
        "ones are STARTED; if any item is STARTED the reference says the policy is decided on the finished set (not too "
        "early); blocked branches never prevent the return (else the run deadlocks - not too late); active bodies <= "
        "max_concurrency; reason consistent with items and policy; the replayed BatchResult equals the first one. A pure "
        "half cross-checks ExecutionCounters.should_complete with BatchResult.from_items exhaustively over the small "
        "configuration space. Non-trivial = early decision with >=1 STARTED item, or zero items, or concurrency limit < "
        "branches; distinct = (config, behaviours, item statuses)."
    ),
    "assumptions": [
        "min_successful=0 is not generated (the code treats it as unset and no document gives it a meaning)",
        "reference policy: decided iff all finished, or successes>=min_successful, or failures exceed the configured tolerance, or (no tolerance configured and >=1 failure: fail-fast, as the tests pin)",
    ],
    "budget": {
        "quick": {"shards": 4, "random_cases": 220, "race_cases": 200, "bounded_runs": 600, "min_nontrivial": 60},
        "thorough": {"shards": 16, "random_cases": 6000, "race_cases": 3000, "bounded_runs": 5000, "min_nontrivial": 2500},
    },
}


def ref_decided(cfg, n, succ, fail):
    mn, tol, pct = cfg.get("min"), cfg.get("tol"), cfg.get("pct")
    if succ + fail >= n:
        return True
    if mn is not None and succ >= mn:
        return True
    if tol is not None and fail > tol:
        return True
    if pct is not None and n > 0 and (fail / n) * 100 > pct:
        return True
    if tol is None and pct is None and fail >= 1:
        return True
    return False


def norm_cfg(c):
    if c is None or c == "all_completed":
        return {"min": None, "tol": None, "pct": None}
    if c == "first_successful":
        return {"min": 1, "tol": None, "pct": None}
    if c == "all_successful":
        return {"min": None, "tol": 0, "pct": 0}
    return {"min": c.get("min"), "tol": c.get("tol"), "pct": c.get("pct")}


@st.composite
def cases(draw):
    n = draw(st.sampled_from([0, 1, 2, 2, 3, 3, 4, 5, 6]))
    is_map = draw(st.booleans())
    comp = draw(st.one_of(st.none(), st.sampled_from(["first_successful", "all_completed", "all_successful"]),
                          st.builds(lambda mn, tol, pct: {"min": mn, "tol": tol, "pct": pct},
                                    st.one_of(st.none(), st.integers(1, n + 1)), st.one_of(st.none(), st.integers(0, max(0, n))),
                                    st.one_of(st.none(), st.sampled_from([0, 25, 50, 100])))))
    mc = draw(st.one_of(st.none(), st.none(), st.integers(1, n + 1)))
    # parallel default config = all_successful; map default = empty config
    eff = norm_cfg(comp) if comp is not None else ({"min": None, "tol": None, "pct": None} if is_map else {"min": None, "tol": 0, "pct": 0})
    kinds = [draw(st.sampled_from(["ok", "ok", "ok", "fail", "fail", "slow_ok", "slow_ok", "slow_fail", "suspend", "nap", "block", "big_ok", "nested"])) for _ in range(n)]
    if n >= 2 and draw(st.integers(0, 5)) == 0:
        # all workers busy with slow branches at the instant a timer-parked branch is resumed inside the invocation
        mc = draw(st.integers(1, n - 1))
        kinds = draw(st.permutations(["nap"] * (n - mc) + ["slow_ok"] * mc))
        is_map = False
        comp = {"min": None, "tol": n, "pct": None}
        eff = norm_cfg(comp)
        forced_sleep = 2.5
    elif n >= 3 and draw(st.integers(0, 7)) == 0:
        # decided early under a concurrency limit of 1 by an OVERSIZED first result: later branches never start, and the
        # call is recorded with ReplayChildren (rebuilt from its children when replayed)
        mc, is_map, forced_sleep = 1, False, None
        kinds = ["big_ok"] + ["ok"] * (n - 1)
        comp = {"min": 1, "tol": n, "pct": None}
        eff = norm_cfg(comp)
    else:
        forced_sleep = None
    # construction rule for `block`: only if the policy is decided by the others alone and no tighter concurrency limit
    succ = sum(1 for k in kinds if k in ("ok", "slow_ok", "big_ok"))
    fail = sum(1 for k in kinds if k in ("fail", "slow_fail"))
    can_block = ref_decided(eff, n, succ, fail) and (succ + fail) < n and (mc is None or mc >= n)
    if not can_block or is_map:
        kinds = ["slow_ok" if k == "block" else k for k in kinds]
    branches = []
    truth = []
    for i, k in enumerate(kinds):
        v = to_tagged(draw(G.json_values))
        msg = f"err-{i}"
        if k == "nested":
            # the branch function returns the BatchResult of an inner map/parallel itself (stmt-level "unwrap")
            inner = draw(st.sampled_from([
                {"op": "parallel", "branches": [[{"op": "step", "beh": {"kind": "ret", "v": v}, "sem": "least", "retry": {"kind": "none"}}],
                                                [{"op": "step", "beh": {"kind": "always_fail", "err": "UserError", "msg": "inner"}, "sem": "least", "retry": {"kind": "none"}}]],
                 "cfg": {"completion": {"min": None, "tol": 2, "pct": None}}},
                {"op": "map", "items": [to_tagged(1), to_tagged(2)], "body": [{"op": "step", "beh": {"kind": "ret", "v": v}, "sem": "least", "retry": {"kind": "none"}}],
                 "cfg": {"completion": {"min": None, "tol": 2, "pct": None}}}]))
            b = [inner]
            truth.append(("nested", None))
        elif k == "big_ok":
            # the branch's own result is larger than the (test-side patched) checkpoint limit
            b = [{"op": "step", "beh": {"kind": "big", "n": 700, "ch": "z"}, "sem": "least", "retry": {"kind": "none"}}]
            truth.append(("ok", "z" * 700))
        elif k in ("ok", "slow_ok"):
            b = [{"op": "step", "beh": {"kind": "ret", "v": v}, "sem": "least", "retry": {"kind": "none"}, **({"sleep": forced_sleep or draw(st.sampled_from([0.2, 0.5, 1.5, 2.5]))} if k == "slow_ok" else {}),
                  "yields": draw(st.integers(0, 2))}]
            truth.append(("ok", v))
        elif k in ("fail", "slow_fail"):
            b = [{"op": "step", "beh": {"kind": "always_fail", "err": "UserError", "msg": msg}, "sem": "least", "retry": {"kind": "none"},
                  **({"sleep": draw(st.sampled_from([0.2, 0.5]))} if k == "slow_fail" else {}), "yields": draw(st.integers(0, 2))}]
            truth.append(("fail", msg))
        elif k == "nap":
            # parks on a 1 s timer (wait or retry back-off) and is resumed by the in-process timer while slow siblings still run
            nap = draw(st.sampled_from([{"op": "wait", "secs": 1},
                                        {"op": "step", "beh": {"kind": "fail_by_attempt", "k": 1, "err": "UserError", "v": 0}, "sem": "least",
                                         "retry": {"kind": "table", "max": 3, "delays": [1], "nonretry": []}}]))
            b = [nap, {"op": "step", "beh": {"kind": "ret", "v": v}, "sem": "least", "retry": {"kind": "none"}, "sleep": draw(st.sampled_from([0.3, 1.0]))}]
            truth.append(("suspend", v))
        elif k == "suspend":
            b = [draw(st.sampled_from([{"op": "wait", "secs": 3}, {"op": "callback", "between": []}])), {"op": "step", "beh": {"kind": "ret", "v": v}, "sem": "least", "retry": {"kind": "none"}}]
            truth.append(("suspend", v))
        else:
            b = [{"op": "gate", "gate": "g", "timeout": None}, {"op": "step", "beh": {"kind": "ret", "v": v}, "sem": "least", "retry": {"kind": "none"}}]
            truth.append(("block", v))
        branches.append(b)
    cfg = {"max_concurrency": mc, "completion": comp, "explicit": draw(st.booleans())}
    if is_map:
        # the map body must be one block for all items: use the item index to pick behaviour via a parallel of single-branch... keep it simple:
        # a map whose body is a step returning a per-item constant is expressed as parallel of identical shape, so maps use uniform behaviour
        uniform = kinds[0] if kinds else "ok"
        kinds = [uniform if uniform != "block" else "slow_ok"] * n
        body = branches[0] if branches else [{"op": "step", "beh": {"kind": "ret", "v": to_tagged(1)}, "sem": "least", "retry": {"kind": "none"}}]
        truth = [truth[0]] * n if truth else []
        stmt = {"op": "map", "items": [to_tagged(i) for i in range(n)], "body": body, "cfg": cfg}
    else:
        stmt = {"op": "parallel", "branches": branches, "cfg": cfg}
    if "nested" in kinds:
        stmt["unwrap"] = True
    body = [stmt, {"op": "open", "gate": "g"}, {"op": "wait", "secs": 2}]
    wrap = draw(st.sampled_from(["root", "root", "child"]))
    if wrap == "child":
        body = [{"op": "child", "body": [stmt, {"op": "open", "gate": "g"}]}, {"op": "wait", "secs": 2}]
    return {
        "prog": {"body": body}, "c09": {"path": "root/0" if wrap == "root" else "root/0/0", "n": n, "eff": eff, "truth": truth, "mc": mc, "kinds": kinds, "is_map": is_map},
        "backend": draw(G.backend_cfgs()), "plan": {"crashes": []}, "sched": draw(G.schedules()),
        "line": draw(st.sampled_from([[], [], [], ["executor", "models"]])),
        **({"limits": {"checkpoint": 600}} if "big_ok" in kinds else {}),
    }


def _unwrapped(case):
    for _, s_ in G.program_paths(case["prog"]):
        if s_["op"] in ("map", "parallel") and s_.get("unwrap"):
            return True
    return False


def mon_c09(run, case):
    info = case.get("c09")
    if not info:
        return
    path, n, eff, truth, mc = info["path"], info["n"], info["eff"], info["truth"], info["mc"]
    site_cfg = "min" if eff["min"] is not None else "tol" if (eff["tol"] is not None or eff["pct"] is not None) else "noconfig"
    first = None
    for o in run.obs:
        if o["path"] != path:
            continue
        if o["out"] == "exc":
            if n == 0:
                run.v("C09", "zero_items_raises", o["exc"], f"{path}: map/parallel over zero items raised {o['exc']}({o['msg']})")
            continue
        if o["out"] != "value":
            continue
        br = o["value"]
        if first is None:
            first = br
            items = list(br.all)
            if len(items) != n or [it.index for it in items] != list(range(n)):
                run.v("C09", "items_not_one_per_input_in_order", site_cfg, f"{path}: {n} inputs, items {[(it.index, it.status.value) for it in items]}")
                continue
            succ = fail = started = 0
            for it, (kind, tv) in zip(items, truth):
                stv = it.status.value
                if stv == "SUCCEEDED":
                    succ += 1
                    want = [from_tagged(tv)] if kind in ("ok",) else None
                    if kind == "ok" and case["prog"] and _unwrapped(case):
                        want = want[0]
                    if kind == "ok" and not teq(it.result, want):
                        run.v("C09", "item_result_wrong", "SUCCEEDED", f"{path}[{it.index}]: result {it.result!r}, branch returned {want!r}")
                    if kind == "fail":
                        run.v("C09", "item_status_wrong", "SUCCEEDED", f"{path}[{it.index}]: reported SUCCEEDED but the branch failed")
                elif stv == "FAILED":
                    fail += 1
                    if kind != "fail":
                        run.v("C09", "item_status_wrong", "FAILED", f"{path}[{it.index}]: reported FAILED but the branch {kind}")
                    elif it.error is None or it.error.message != tv:
                        run.v("C09", "item_error_wrong", "FAILED", f"{path}[{it.index}]: error {it.error!r}, branch raised {tv!r}")
                else:
                    started += 1
                    if it.result is not None or it.error is not None:
                        run.v("C09", "started_item_carries_outcome", "STARTED", f"{path}[{it.index}]: {it!r}")
            if started and not ref_decided(eff, n, succ, fail):
                run.v("C09", "returned_before_policy_decided", site_cfg,
                      f"{path}: returned with {started} STARTED item(s) but {succ} successes / {fail} failures of {n} do not decide {eff}")
            reason = br.completion_reason.value
            if reason == "ALL_COMPLETED" and started:
                failfast = eff["min"] is not None and eff["tol"] is None and eff["pct"] is None and fail >= 1 and succ < eff["min"]
                site = "ALL_COMPLETED:min-without-tolerance:decided-by-failure" if failfast else f"ALL_COMPLETED:{site_cfg}"
                run.v("C09", "reason_inconsistent", site, f"{path}: ALL_COMPLETED with {started} STARTED item(s); {succ} ok / {fail} failed, policy {eff}")
            if reason == "MIN_SUCCESSFUL_REACHED" and (eff["min"] is None or succ < eff["min"]):
                run.v("C09", "reason_inconsistent", f"MIN_SUCCESSFUL_REACHED:{site_cfg}", f"{path}: {succ} successes, min_successful {eff['min']}")
            if reason == "FAILURE_TOLERANCE_EXCEEDED":
                exceeded = (eff["tol"] is not None and fail > eff["tol"]) or (eff["pct"] is not None and n and fail / n * 100 > eff["pct"]) or (eff["tol"] is None and eff["pct"] is None and fail >= 1)
                if not exceeded:
                    run.v("C09", "reason_inconsistent", f"FAILURE_TOLERANCE_EXCEEDED:{site_cfg}", f"{path}: {fail} failures of {n}, policy {eff}")
            info["_items"] = [it.status.value for it in items]
            info["_reason"] = reason
        else:
            if not teq(first, br):
                site = site_cfg
                if replay_children_started_item_pattern(run, path, first, br):
                    # rebuilt from the children's records: an item that was still running at decision time and
                    # finished before the parent's completion record was written shows up as finished on replay
                    site = "replay-children:started-item-finished-before-parent-record"
                run.v("C09", "replayed_batch_result_differs", site, f"{path}: first {first!r}, replay {br!r}"[:3000])
    # not too late (suspended branches): if the branches that need no external time already decide the policy, the
    # call must return in the first invocation instead of suspending the execution
    kinds = info["kinds"]
    q_s = sum(1 for k in kinds if k in ("ok", "slow_ok", "big_ok"))
    q_f = sum(1 for k in kinds if k in ("fail", "slow_fail"))
    if n and ref_decided(eff, n, q_s, q_f):
        first_obs = next((o for o in run.obs if o["path"] == path and o["inv"] == 0), None)
        if first_obs is not None and first_obs["out"] == "suspend":
            run.v("C09", "suspended_although_policy_decided", site_cfg,
                  f"{path}: {q_s} successes / {q_f} failures of {n} decide {eff}, yet the call suspended the execution (branch kinds {kinds})")
    # concurrency limit
    mx = (run.world.get("max_active") or {}).get(path, 0)
    if mc is not None and mx > mc:
        run.v("C09", "concurrency_limit_exceeded", f"limit", f"{path}: {mx} branch bodies active at once, max_concurrency={mc}")
    # not too late / zero items: the call must return
    for inv in run.invocations:
        if inv.get("outcome") in ("deadlock", "time_cap"):
            kinds = info["kinds"]
            site = "zero-items" if n == 0 else "blocked-branch" if "block" in kinds else "other"
            run.v("C09", "call_never_returned", site, f"{path}: invocation {inv['inv']} ended in {inv['outcome']}: {inv.get('deadlock_info')}")


def nontrivial(run, case):
    info = case["c09"]
    items = info.get("_items")
    early = bool(items) and "STARTED" in items
    if not (early or info["n"] == 0 or (info["mc"] is not None and info["mc"] < info["n"])):
        return None
    return [info["eff"], info["mc"], info["kinds"], items]


def classes(run, case):
    info = case["c09"]
    out = []
    if info.get("_items") and "STARTED" in info["_items"]:
        out.append("early-decision")
    if info["n"] == 0:
        out.append("zero-items")
    if "block" in info["kinds"]:
        out.append("blocked-branch")
    if "suspend" in info["kinds"]:
        out.append("suspending-branch")
    if "big_ok" in info["kinds"]:
        out.append("branch-result-above-checkpoint-limit")
    if "nap" in info["kinds"]:
        out.append("timer-parked-branch")
        seen = set()
        for e in run.entries:
            if e["kind"] == "branch":
                if (e["path"], e["inv"]) in seen:
                    out.append("branch-resumed-within-invocation")
                    if info["mc"] is not None and info["mc"] < info["n"]:
                        out.append("branch-resumed-within-invocation-under-concurrency-limit")
                seen.add((e["path"], e["inv"]))
    if info.get("_reason"):
        out.append("reason:" + info["_reason"])
    return out


@st.composite
def race_cases(draw):
    """Branches that finish at (virtually) the same instant under an early-exit policy, with every source line of the
    executor and its models a yield point: the bookkeeping of one completion can be preempted by another's."""
    n = draw(st.integers(2, 4))
    pol = draw(st.sampled_from(["min", "min", "tol"]))
    if pol == "min":
        comp = {"min": draw(st.integers(1, n - 1)) if n > 1 else 1, "tol": n, "pct": None}
        kinds = ["ok"] * n
    else:
        comp = {"min": None, "tol": draw(st.integers(0, n - 2)) if n > 1 else 0, "pct": None}
        kinds = ["fail"] * n
    branches, truth = [], []
    for i in range(n):
        if kinds[i] == "ok":
            v = to_tagged(i)
            branches.append([{"op": "step", "beh": {"kind": "ret", "v": v}, "sem": "least", "retry": {"kind": "none"}}])
            truth.append(("ok", v))
        else:
            branches.append([{"op": "step", "beh": {"kind": "always_fail", "err": "UserError", "msg": f"err-{i}"}, "sem": "least", "retry": {"kind": "none"}}])
            truth.append(("fail", f"err-{i}"))
    stmt = {"op": "parallel", "branches": branches, "cfg": {"max_concurrency": None, "completion": comp}}
    return {
        "prog": {"body": [stmt, {"op": "wait", "secs": 1}]},
        "c09": {"path": "root/0", "n": n, "eff": norm_cfg(comp), "truth": truth, "mc": None, "kinds": kinds, "is_map": False},
        "backend": {"response": "delta"}, "plan": {"crashes": []},
        "sched": [draw(st.one_of(st.builds(lambda sd: {"mode": "walk", "seed": sd, "stick": 0.0}, st.integers(0, 2**31)),
                                 st.builds(lambda sd, d, h: {"mode": "pct", "seed": sd, "depth": d, "horizon": h}, st.integers(0, 2**31), st.integers(1, 3), st.sampled_from([600, 1500, 3000])),
                                 st.builds(lambda sd, d, h: {"mode": "pct", "seed": sd, "depth": d, "horizon": h}, st.integers(0, 2**31), st.integers(1, 2), st.sampled_from([600, 1500, 3000]))))],
        "line": ["executor", "models"],
    }


def _race_stage(ctx):
    WC.run_generated(ctx, race_cases(), PROPS, n_cases=ctx.budget.get("race_cases", 120), nontrivial=nontrivial, classes=classes,
                     extra_monitors=(mon_c09,), seed_offset=23)


def _bounded_race_stage(ctx):
    """For a 3-branch parallel with an early-exit policy: one run per executed source line of executor.py/models.py in
    which the task executing that line is preempted for as long as anything else can run - the schedule shape of the
    races between two finishing branches' bookkeeping."""
    import json as _json

    from .. import detsched as D

    configs = [
        (["ok", "ok", "ok"], {"min": 2, "tol": 3, "pct": None}),
        (["fail", "suspend", "ok"], {"min": None, "tol": 0, "pct": 0}),   # a failure decides while another branch suspends
        (["fail", "fail", "fail"], {"min": None, "tol": 1, "pct": None}),
        (["ok", "suspend", "fail"], {"min": 1, "tol": 3, "pct": None}),   # a success decides while another branch suspends
    ]
    for ci, (kinds, comp) in enumerate(configs):
        if ctx.nshards > 1 and ci % ctx.nshards != ctx.shard % ctx.nshards:
            continue
        branches, truth = [], []
        for i, k in enumerate(kinds):
            if k == "ok":
                branches.append([{"op": "step", "beh": {"kind": "ret", "v": i}, "sem": "least", "retry": {"kind": "none"}}])
                truth.append(("ok", i))
            elif k == "suspend":
                branches.append([{"op": "wait", "secs": 3}, {"op": "step", "beh": {"kind": "ret", "v": i}, "sem": "least", "retry": {"kind": "none"}}])
                truth.append(("suspend", i))
            else:
                branches.append([{"op": "step", "beh": {"kind": "always_fail", "err": "UserError", "msg": f"err-{i}"}, "sem": "least", "retry": {"kind": "none"}}])
                truth.append(("fail", f"err-{i}"))
        base = {"prog": {"body": [{"op": "parallel", "branches": branches, "cfg": {"max_concurrency": None, "completion": comp}}, {"op": "wait", "secs": 1}]},
                "c09": {"path": "root/0", "n": 3, "eff": norm_cfg(comp), "truth": truth, "mc": None, "kinds": kinds, "is_map": False},
                "backend": {"response": "delta"}, "plan": {"crashes": []}, "line": ["executor", "models"]}
        for order in (("low", "high") if "suspend" in kinds else ("low",)):
            WC.line_preempt_sweep(ctx, base, PROPS, nontrivial=nontrivial, classes=lambda r_, c_: ["one-long-preemption-at-a-line"], extra_monitors=(mon_c09,),
                                  limit=ctx.budget.get("bounded_runs", 600), order=order,
                                  label=f"one long preemption at each executed line of executor/models ({order}), parallel {kinds} {_json.dumps(comp)}")


# --------------------------------------------------------------------------- pure half: counters vs classifier


def _pure_stage(ctx):
    """Exhaustive over n<=4 x config grid x outcome prefixes: whenever the counters say 'complete', the reference says
    'decided' and vice versa."""
    if ctx.shard != 0:
        return
    from aws_durable_execution_sdk_python.concurrency.models import ExecutionCounters

    count = 0
    for n in range(1, 5):
        for mn in [None] + list(range(1, n + 2)):
            for tol in [None] + list(range(0, n + 1)):
                for pct in [None, 0, 25, 50, 100]:
                    eff = {"min": mn, "tol": tol, "pct": pct}
                    for seq in itertools.product("sf", repeat=n):
                        c = ExecutionCounters(n, mn or n, tol, pct)
                        s = f = 0
                        for k, ch in enumerate(seq):
                            if ch == "s":
                                c.complete_task()
                                s += 1
                            else:
                                c.fail_task()
                                f += 1
                            got = c.should_complete()
                            want = ref_decided(eff, n, s, f)
                            count += 1
                            if got != want:
                                ctx.violation("counters_disagree_with_policy", "too_early" if got else "too_late",
                                              f"n={n} cfg={eff} after {seq[:k + 1]}: should_complete()={got}, reference decided={want}", {"pure": [n, eff, list(seq[: k + 1])]})
                            if got:
                                break
    ctx.extra["pure_policy_points"] = count
    ctx.extra["pure_policy_exhaustive"] = True


install(globals(), props=("C09",), cases=cases, nontrivial=nontrivial, classes=classes, extra_monitors=(mon_c09,), stages=(_pure_stage, _race_stage, _bounded_race_stage))
_wf_replay = replay  # noqa: F821


def replay(case):
    if "pure" in case:
        from aws_durable_execution_sdk_python.concurrency.models import ExecutionCounters

        n, eff, seq = case["pure"]
        c = ExecutionCounters(n, eff["min"] or n, eff["tol"], eff["pct"])
        s = f = 0
        got = False
        for ch in seq:
            if ch == "s":
                c.complete_task(); s += 1
            else:
                c.fail_task(); f += 1
            got = c.should_complete()
        want = ref_decided(eff, n, s, f)
        return [] if got == want else [{"kind": "counters_disagree_with_policy", "site": "too_early" if got else "too_late", "detail": f"{case['pure']}"}]
    return _wf_replay(case)


_wf_min = minimise  # noqa: F821


def minimise(entry):
    if "pure" in entry["case"]:
        return entry
    # the per-branch ground truth (case["c09"]) is tied to the program: shrink schedule/backend only
    return WC.minimise_case(entry, PROPS, EXTRA_MONITORS, shrink_prog=False)  # noqa: F821
