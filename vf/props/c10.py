"""C10 - nothing is recorded under a context after that context has completed."""
from __future__ import annotations

from hypothesis import strategies as st

from .. import wfgen as G
from ..values import to_tagged
from ._wf import install

META = {
    "id": "C10",
    "level": "exploration",
    "engine": "workflow",
    "rule": (
        "Case = map/parallel (optionally nested up to 3 levels, optionally inside a child context) with an early-completion "
        "policy (first_successful, min_successful k, failure tolerance) decided by fast branches, and surviving branches "
        "whose bodies are generated sequences of {step with internal yield points / virtual sleep, retrying step, wait, "
        "child context, nested parallel, wait_for_condition, callback}, so that at the instant the parent completes a "
        "survivor is inside a user function, between two operations, or about to start a new operation / nested context; "
        "the instant is varied by the schedule (walk/pct; line-level preemption in state.py/executor.py for a third of "
        "the cases) and by backend latency. Oracle (orphan monitor): after the terminal CONTEXT record of X has been handed "
        "to the checkpoint pipeline (observed by wrapping create_checkpoint from the test side), no update whose ancestor "
        "chain contains X that is handed over later reaches the backend, and no step/check/submitter function is entered "
        "under X; in the backend's arrival order no descendant record comes after the completion record of X within "
        "the same invocation (first-in first-out pipeline). A quarter of the cases park every branch first so that the race "
        "happens in a resumed invocation; an extra stage uses survivors with 300-500 KB results (batch overflow) next to "
        "the completion record with a backend call in flight. Non-trivial = a survivor attempted >=1 durable operation after the completion (an OrphanedChild rejection "
        "or a later hand-over was observed); distinct = (program shape, decision-trace hash)."
        " Plus LinePreempt sweeps (one long preemption per executed line of state.py/executor.py) over four fixed early-completing parallels whose survivor is about to hand over its next record."
    ),
    "assumptions": ["'handed its completion record' = the call of ExecutionState.create_checkpoint with the CONTEXT SUCCEED/FAIL update"],
    "budget": {
        "quick": {"shards": 4, "random_cases": 200, "sweep_limit": 2500, "min_nontrivial": 40},
        "thorough": {"shards": 16, "random_cases": 6000, "sweep_limit": 5000, "min_nontrivial": 1800},
    },
}


@st.composite
def survivor(draw, depth=0):
    vals = G.tagged_values()
    slow = st.builds(lambda v, sl, y, sem: {"op": "step", "beh": {"kind": "ret", "v": v}, "sem": sem, "retry": {"kind": "none"}, "sleep": sl, "yields": y},
                     vals, st.sampled_from([0.1, 0.2, 0.4, 0.8]), st.integers(0, 3), st.sampled_from(["least", "least", "most"]))
    retrying = st.builds(lambda k, v: {"op": "step", "beh": {"kind": "fail_then_ret", "k": k, "err": "UserError", "v": v}, "sem": "least",
                                       "retry": {"kind": "table", "max": 4, "delays": [1], "nonretry": []}, "sleep": 0.1},
                         st.integers(1, 2), vals)
    opts = [slow, slow, slow, retrying, G.waits(2), st.builds(lambda b: {"op": "child", "body": b}, st.lists(slow, min_size=1, max_size=2)),
            G.wfconds(2), st.just({"op": "callback", "between": []})]
    if depth < 2:
        opts.append(st.builds(lambda a, b: {"op": "parallel", "branches": [a, b], "cfg": {"completion": {"min": None, "tol": 2, "pct": None}}},
                              st.lists(slow, min_size=1, max_size=2), st.lists(st.one_of(slow, retrying), min_size=1, max_size=2)))
    return draw(st.lists(st.one_of(*opts), min_size=1, max_size=4))


@st.composite
def early_batch(draw, depth=0):
    vals = G.tagged_values()
    fast_ok = {"op": "step", "beh": {"kind": "ret", "v": draw(vals)}, "sem": "least", "retry": {"kind": "none"}, **({"sleep": draw(st.sampled_from([0.1, 0.3]))} if draw(st.booleans()) else {})}
    fast_fail = {"op": "step", "beh": {"kind": "always_fail", "err": "UserError", "msg": "decider"}, "sem": "least", "retry": {"kind": "none"},
                 **({"sleep": draw(st.sampled_from([0.1, 0.3]))} if draw(st.booleans()) else {})}
    pol = draw(st.sampled_from(["first", "min", "tol", "failfast"]))
    n_surv = draw(st.integers(1, 3))
    survivors = []
    for _ in range(n_surv):
        if depth < 1 and draw(st.integers(0, 3)) == 0:
            survivors.append([draw(early_batch(depth + 1))] + draw(survivor(depth + 1)))
        else:
            survivors.append(draw(survivor(depth)))
    if pol == "first":
        deciders, comp = [[fast_ok]], "first_successful"
    elif pol == "min":
        deciders, comp = [[fast_ok], [dict(fast_ok)]], {"min": 2, "tol": 5, "pct": None}
    elif pol == "tol":
        deciders, comp = [[fast_fail], [dict(fast_fail)]], {"min": None, "tol": 1, "pct": None}
    else:
        deciders, comp = [[fast_fail]], None
    if depth == 0 and draw(st.integers(0, 3)) == 0:
        # everything parks first: deciders and survivors act in a RESUMED invocation (their contexts and the batch itself
        # are known from the loaded history only, operations started now hang below them)
        deciders = [[{"op": "wait", "secs": 1}] + d for d in deciders]
        survivors = [[{"op": "wait", "secs": 1}] + sv for sv in survivors]
    branches = deciders + survivors
    order = draw(st.permutations(list(range(len(branches)))))
    branches = [branches[i] for i in order]
    cfg = {"max_concurrency": None, "completion": comp, "explicit": True}
    if draw(st.integers(0, 5)) == 0:
        # the operation completes early and is then handed FAIL: its aggregated result cannot be serialized
        cfg["serdes"] = "raising"
        cfg["item_serdes"] = draw(st.sampled_from(["fragile", "fragile", None]))  # a faithful custom item serializer, or none
    return {"op": "parallel", "branches": branches, "cfg": cfg}


@st.composite
def cases(draw):
    b = draw(early_batch())
    body = [b]
    if draw(st.booleans()):
        body = [{"op": "child", "body": [b]}]
    body.append({"op": "try", "body": {"op": "step", "beh": {"kind": "ret", "v": to_tagged("after")}, "sem": "least", "retry": {"kind": "none"}, "sleep": draw(st.sampled_from([0.0, 0.5, 1.5]))},
                 "catch": ["Exception"], "handler": []})
    if draw(st.booleans()):
        body.append({"op": "wait", "secs": 1})
    wrap = {"op": "try", "body": body[0], "catch": ["Exception"], "handler": []}
    body[0] = wrap
    be = draw(G.backend_cfgs())
    return {
        "prog": {"body": body},
        "backend": be,
        "plan": {"crashes": []},
        "sched": draw(G.schedules()),
        "line": draw(st.sampled_from([[], [], ["state"], ["executor"]])),
    }


@st.composite
def big_cases(draw):
    """Survivors whose records do not fit one batch (the batcher's overflow path) while the completion record of the
    parent travels in the same batching window, with a backend call in flight."""
    n_big = draw(st.integers(2, 3))
    big = [[{"op": "step", "beh": {"kind": "big", "n": draw(st.sampled_from([300 * 1024, 400 * 1024, 500 * 1024])), "ch": "b"}, "sem": "least", "retry": {"kind": "none"},
             "sleep": draw(st.sampled_from([0.05, 0.1, 0.15, 0.25, 0.4]))}] + draw(st.lists(G.steps(allow_fail=False), max_size=1)) for _ in range(n_big)]
    fast = [{"op": "step", "beh": {"kind": "ret", "v": to_tagged(1)}, "sem": "least", "retry": {"kind": "none"}, **({"sleep": draw(st.sampled_from([0.05, 0.1]))} if draw(st.booleans()) else {})}]
    branches = [fast] + big
    order = draw(st.permutations(list(range(len(branches)))))
    stmt = {"op": "parallel", "branches": [branches[i] for i in order], "cfg": {"max_concurrency": None, "completion": {"min": 1, "tol": 5, "pct": None}, "explicit": True}}
    if draw(st.booleans()):
        stmt = {"op": "child", "body": [stmt]}
    body = [{"op": "try", "body": stmt, "catch": ["Exception"], "handler": []},
            {"op": "step", "beh": {"kind": "ret", "v": to_tagged("after")}, "sem": "least", "retry": {"kind": "none"}, "sleep": 1.0}]
    replayed = draw(st.booleans())
    if replayed:
        # the early-decided call is recorded with ReplayChildren (patched limit) and replayed by a later invocation: the
        # branches that were unfinished at decision time must stay untouched then
        body += [{"op": "wait", "secs": 2}, {"op": "step", "beh": {"kind": "ret", "v": to_tagged("later")}, "sem": "least", "retry": {"kind": "none"}}]
    return {"prog": {"body": body}, "backend": {"response": "delta", "api_latency": draw(st.sampled_from([0.1, 0.2, 0.4]))}, "plan": {"crashes": []},
            **({"limits": {"checkpoint": 300}} if replayed else {}), "sched": draw(G.schedules()), "line": []}


def _big_stage(ctx):
    from .. import wfcheck as WC

    WC.run_generated(ctx, big_cases(), PROPS, n_cases=max(12, ctx.budget["random_cases"] // 8), nontrivial=nontrivial,
                     classes=lambda r, c: ["batch-overflow-next-to-completion"] + classes(r, c), seed_offset=9)


def nontrivial(run, case):
    done = {}
    for h in run.handovers:
        u = h["upd"]
        if u and u["Type"] == "CONTEXT" and u["Action"] in ("SUCCEED", "FAIL"):
            done.setdefault(u["Id"], (h["clk"], h["inv"]))
    b = run.backend
    late = 0
    for h in run.handovers:
        u = h["upd"]
        if not u:
            continue
        cur = u.get("ParentId")
        seen = set()
        while cur and cur not in seen:
            seen.add(cur)
            if cur in done and done[cur][1] == h["inv"] and done[cur][0] < h["clk"]:
                late += 1
                break
            cur = b.ops.get(cur, {}).get("ParentId")
    rejected = sum(1 for h in run.handovers if h.get("raised") == "OrphanedChildException")
    if late == 0 and rejected == 0:
        return None
    return [G.shape_of(case["prog"]), hash(tuple(run.invocations[0].get("trace", []))) & 0xFFFFFF]


def classes(run, case):
    out = []
    if any(h.get("raised") == "OrphanedChildException" for h in run.handovers):
        out.append("orphan-rejected")
    if any(e.get("under_done") for e in run.entries):
        out.append("entry-under-completed-context")
    if any(h["upd"] and h["upd"]["Type"] == "CONTEXT" and h["upd"]["Action"] == "FAIL" and h["upd"].get("SubType") in ("Parallel", "Map") for h in run.handovers):
        out.append("early-completing-batch-handed-FAIL")
    return out


def _sweep_stage(ctx):
    """One long preemption at every executed source line of state.py / executor.py for early-completing parallels whose
    survivor is about to hand over its next record: the window between 'validated' and 'enqueued' included."""
    from .. import wfcheck as WC
    from .c03 import _S

    bases = [
        ("first_successful: [fast | step, step]", {"op": "parallel", "branches": [[_S(1, sleep=0.2)], [_S(2, sleep=0.1), _S(3, sleep=0.3)]],
                                                   "cfg": {"completion": "first_successful", "explicit": True}}, ["state"]),
        ("min 1: [fast | child{step}, wait]", {"op": "parallel", "branches": [[_S(1, sleep=0.2)], [{"op": "child", "body": [_S(2, sleep=0.2)]}, {"op": "wait", "secs": 1}]],
                                               "cfg": {"completion": {"min": 1, "tol": 3, "pct": None}, "explicit": True}}, ["state", "executor"]),
        ("fail-fast: [failing | step(at-most-once), step]", {"op": "parallel", "branches": [[{"op": "step", "beh": {"kind": "always_fail", "err": "UserError", "msg": "d"}, "sem": "least",
                                                                                               "retry": {"kind": "none"}, "sleep": 0.2}], [_S(2, sem="most", sleep=0.2), _S(3)]],
                                                             "cfg": {"completion": None, "explicit": True}}, ["state"]),
        ("nested: [fast | parallel{step|step}]", {"op": "parallel", "branches": [[_S(1, sleep=0.3)], [{"op": "parallel", "branches": [[_S(2, sleep=0.3)], [_S(3, sleep=0.1), _S(4, sleep=0.4)]],
                                                                                                        "cfg": {"completion": {"min": None, "tol": 2, "pct": None}}}]],
                                                  "cfg": {"completion": "first_successful", "explicit": True}}, ["state", "executor"]),
    ]
    for i, (label, stmt, line) in enumerate(bases):
        if ctx.nshards > 1 and i % ctx.nshards != ctx.shard % ctx.nshards:
            continue
        base = {"prog": {"body": [{"op": "try", "body": stmt, "catch": ["Exception"], "handler": []}, _S("after", sleep=1.0)]}, "backend": {"response": "delta"},
                "plan": {"crashes": []}, "line": line}
        WC.line_preempt_sweep(ctx, base, PROPS, nontrivial=nontrivial, classes=lambda r, c: ["one-long-preemption-at-a-line"] + classes(r, c),
                              limit=ctx.budget.get("sweep_limit", 700), label=f"one long preemption per line of {'/'.join(line)}: {label}")
        # the same with the preempted task descheduled for 0.3 virtual seconds: siblings finish, batches leave and the
        # parent completes while it sits between two statements (e.g. between "validated" and "enqueued")
        WC.line_preempt_sweep(ctx, base, PROPS, nontrivial=nontrivial, classes=lambda r, c: ["one-long-preemption-at-a-line", "stalled-preemption"] + classes(r, c),
                              limit=ctx.budget.get("sweep_limit", 700), stall=0.3, label=f"one long preemption (stall 0.3 s) per line of {'/'.join(line)}: {label}")


install(globals(), props=("C10",), cases=cases, nontrivial=nontrivial, classes=classes, stages=(_big_stage, _sweep_stage))
