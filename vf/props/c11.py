"""C11 - the update stream is always a valid operation history (lifecycle automaton over the arrival log)."""
from __future__ import annotations

from hypothesis import strategies as st

from .. import wfgen as G
from ._wf import install

META = {
    "id": "C11",
    "level": "fault_enumeration",
    "engine": "workflow",
    "rule": (
        "Case = generated workflow program (all operation kinds, nesting, retries, early-completing map/parallel) x dense "
        "crash plan (0-4 crashes before/after backend calls and inside user functions, in any of the first invocations) x "
        "fault plan (for a third of the cases 1-2 failing backend calls, retriable and non-retriable classes, request or response lost) x "
        "schedules x backend flags, executed to the end against the service model. Oracle: a per-operation lifecycle "
        "automaton runs inside the model on every arriving update of the whole execution (first update is START; STEP "
        "START/RETRY/SUCCEED/FAIL transitions with <=1 START per attempt and nothing while PENDING; WAIT/CALLBACK/"
        "CHAINED_INVOKE START once; CONTEXT START then one SUCCEED|FAIL; nothing after a terminal record or for an op "
        "completed externally; type/subtype/parent/name constant per id; a child's first update after its parent "
        "context's START; execution-level result at most once and last); on the stream as SENT: no batch is transmitted again "
        "after a transmission of it was applied and no consumed checkpoint token is used again. Plus fault enumeration over every backend "
        "call of five fixed programs (backend latency 0/0.2 s). Non-trivial = execution with >=1 crash or >=3 "
        "invocations; distinct = (program shape, invocation outcomes, crash plan)."
        " Plus LinePreempt sweeps over state.py for four fixed programs (paged and unpaged responses)."
        " Directed stage: a context recorded with ReplayChildren whose body raises (invocation-level, SDK and user errors) when it is run again in a later invocation - no FAIL for the completed context."
    ),
    "assumptions": ["the automaton in vf/simbackend.py is the trusted statement of the lifecycle the backend expects",
                    "updates are applied leniently after a violation is recorded (so one defect does not cascade)"],
    "budget": {
        "quick": {"shards": 4, "random_cases": 130, "min_nontrivial": 60},
        "thorough": {"shards": 16, "random_cases": 3500, "min_nontrivial": 1500},
    },
}


@st.composite
def cases(draw):
    fragile = draw(st.integers(0, 4)) == 0
    if fragile:
        # a custom serializer that cannot read back what it wrote (from invocation k on, k=0: never could): whatever
        # the SDK makes of the failure, the stream it sends stays valid. No try/except here: catching the error and
        # running other operations in the handler would make the program itself non-deterministic.
        import copy

        from .c01 import _mark_fragile

        prog = copy.deepcopy(draw(G.programs(max_stmts=5, early_completion=True, features=("step", "wait", "child", "parallel", "map", "wfcond", "wfcb", "sleep"))))
        _mark_fragile(prog["body"], draw)
    else:
        prog = draw(G.programs(max_stmts=6, early_completion=True))
    return {
        **({"serdes_break": draw(st.sampled_from([0, 0, 1, 2]))} if fragile else {}),
        "prog": prog,
        "limits": draw(st.sampled_from([{}, {}, {}, {"checkpoint": 300}, {"checkpoint": 120}])),
        "backend": {**draw(G.backend_cfgs()), **({"slow_calls": {f"{draw(st.integers(0, 2))}:{draw(st.integers(0, 4))}": draw(st.sampled_from([65.0, 90.0]))}} if draw(st.integers(0, 7)) == 0 else {})},
        "plan": {"crashes": draw(G.crash_plans(max_crashes=4, max_inv=6, max_n=14)),
                 "faults": draw(st.one_of(st.just([]), st.just([]), st.lists(st.builds(
                     lambda inv, api, cls, when: {"inv": inv, "api": api, "class": cls, "when": when},
                     st.integers(0, 3), st.integers(0, 8), st.sampled_from(["client4xx", "validation", "server5xx", "throttle"]), st.sampled_from(["before", "after"])), min_size=1, max_size=2)))},
        "max_raises": 3,
        "sched": draw(G.schedules()),
        "line": draw(st.sampled_from([[], [], [], ["state"], ["executor"]])),
    }


def nontrivial(run, case):
    crashed = sum(1 for i in run.invocations if i.get("outcome") == "crashed")
    if crashed == 0 and len(run.invocations) < 3:
        return None
    return [G.shape_of(case["prog"]), [i.get("outcome") for i in run.invocations], case["plan"]["crashes"]]


def classes(run, case):
    out = [f"updates>={n}" for n in (10, 30) if len(run.backend.log) >= n]
    if case.get("serdes_break") is not None:
        out.append("custom-serializer-cannot-read-back")
    if any(i.get("outcome") == "crashed" for i in run.invocations):
        out.append("with-crash")
    return out


def _fault_stage(ctx):
    """Fault enumeration: every backend call of the first three invocations of five fixed programs fails once (retriable
    and non-retriable classes, request lost / response lost): whatever the SDK does about it, the stream it sends stays valid."""
    from .. import wfcheck as WC
    from .c03 import _S

    bases = [
        ("child{step}; step", [{"op": "child", "body": [_S(1)]}, _S(2)]),
        ("compute; child{compute; step}; wait; step", [{"op": "sleep", "secs": 0.15}, {"op": "child", "body": [{"op": "sleep", "secs": 0.15}, _S(1)]}, {"op": "wait", "secs": 1}, _S(2)]),
        ("wfcond; callback", [{"op": "wfcond", "init": 0, "decisions": [["continue", 1], ["stop"]], "trans": "count"}, {"op": "callback", "between": [_S(3)]}]),
        ("parallel{step,compute+step}", [{"op": "parallel", "branches": [[_S(1)], [{"op": "sleep", "secs": 0.15}, _S(2)]], "cfg": {"completion": {"min": None, "tol": 2, "pct": None}}}]),
        ("retrying step; invoke", [{"op": "step", "beh": {"kind": "fail_by_attempt", "k": 1, "err": "UserError", "v": 1}, "sem": "least", "retry": {"kind": "table", "max": 3, "delays": [1], "nonretry": []}},
                                   {"op": "invoke", "fn": "f", "payload": 1}]),
    ]
    total = 0
    for i, (label, body) in enumerate(bases):
        if ctx.nshards > 1 and i % ctx.nshards != ctx.shard % ctx.nshards:
            continue
        for lat in (0.0, 0.2):
            base = {"prog": {"body": body}, "backend": {"response": "delta", "api_latency": lat}, "plan": {"crashes": [], "faults": []}, "sched": [{"mode": "seq"}], "line": [], "max_raises": 3}
            total += WC.enumerate_faults(ctx, base, PROPS, nontrivial=nontrivial, classes=lambda r, c: ["fault-enumeration"] + classes(r, c),
                                         fault_classes=("client4xx", "server5xx"), limit=120)
    ctx.extra["fault_points_enumerated"] = total


def _sweep_stage(ctx):
    """One long preemption at every executed source line of state.py (hand-over, merge of responses, release of waiters)."""
    from .. import wfcheck as WC
    from .c03 import _S

    bases = [
        ("wait; step", [{"op": "wait", "secs": 1}, _S(1)], 1),
        ("callback{step}; invoke", [{"op": "callback", "between": [_S(2)]}, {"op": "invoke", "fn": "f", "payload": {"a": 1}, "tenant": "t"}], 1),
        ("parallel{wait(1)+step | slow step}", [{"op": "parallel", "branches": [[_S(1), {"op": "wait", "secs": 1}, _S(3)], [_S(2, sleep=2.5)]],
                                                   "cfg": {"completion": {"min": None, "tol": 2, "pct": None}}}], None),
        ("wait_for_callback; wfcond", [{"op": "wfcb"}, {"op": "wfcond", "init": 0, "decisions": [["continue", 1], ["stop"]], "trans": "count"}], 2),
    ]
    for i, (label, body, page) in enumerate(bases):
        if ctx.nshards > 1 and i % ctx.nshards != ctx.shard % ctx.nshards:
            continue
        base = {"prog": {"body": body}, "backend": {"response": "delta", "page_size": page, "state_page": 1}, "plan": {"crashes": [], "external": []}, "line": ["state"]}
        WC.line_preempt_sweep(ctx, base, PROPS, nontrivial=nontrivial, classes=lambda r, c: ["one-long-preemption-at-a-line"],
                              limit=ctx.budget.get("sweep_limit", 600), label="one long preemption per line of state.py: " + label)


def _rebuild_errors(ctx):
    """A context recorded as SUCCEEDED with ReplayChildren (result above the patched limit) whose body, run again in a
    later invocation to rebuild the result, raises - an ordinary error, an SDK error, or an invocation-level error that
    makes the handler raise for a Lambda retry: whatever the error, no FAIL may be sent for the completed context."""
    from .. import wfcheck as WC
    from .c03 import _S

    n = 0
    i = 0
    for cls in ("InvocationError", "StepInterruptedError", "UserError", "ExecutionError", "CallableRuntimeError"):
        for inner in (False, True):
            for tail in ([{"op": "wait", "secs": 1}, _S(9)], [{"op": "callback", "between": []}]):
                i += 1
                if ctx.nshards > 1 and i % ctx.nshards != ctx.shard % ctx.nshards:
                    continue
                boom = {"op": "raise", "exc": {"cls": cls, "msg": "gone"}, "from_inv": 1}
                body_in = [_S(1), boom, _S(2)]
                child = {"op": "child", "body": [{"op": "child", "body": body_in, "pad": 400}, _S(3)] if inner else body_in, "pad": 400}
                case = {"prog": {"body": [child] + tail}, "limits": {"checkpoint": 300}, "backend": {"response": "delta"}, "plan": {"crashes": []},
                        "sched": [{"mode": "seq"}], "line": [], "max_raises": 2}
                WC.report_case(ctx, case, PROPS, nontrivial=nontrivial, classes=lambda r, c: ["directed:error-while-rebuilding-replay-children-context"] + classes(r, c))
                n += 1
    ctx.extra["rebuild_error_cases"] = n


install(globals(), props=("C11",), cases=cases, nontrivial=nontrivial, classes=classes, stages=(_fault_stage, _rebuild_errors, _sweep_stage))
