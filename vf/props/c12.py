"""C12 - step retries: attempts counted exactly, bounded, durably scheduled; packaged strategies obey their law."""
from __future__ import annotations

import math
import re

from hypothesis import HealthCheck, Phase, given, seed, settings
from hypothesis import strategies as st

from .. import wfgen as G
from ._wf import install

META = {
    "id": "C12",
    "level": "fault_enumeration",
    "engine": "workflow",
    "rule": (
        "(a) Workflow half: programs whose steps fail k times then succeed / always fail / raise a non-retryable error, with "
        "a recording decision-table strategy or create_retry_strategy(generated RetryStrategyConfig), at top level and in "
        "child contexts / branches, x crash plans between attempts (at backend calls) and, separately labelled, inside "
        "attempts x schedules x backend flags. Oracle: the strategy is consulted with attempts_made = 1 + number of RETRY "
        "records accepted before the call; each retry decision yields an accepted RETRY whose NextAttemptDelaySeconds = "
        "max(1, decided delay); #RETRY <= max_attempts-1; a re-attempt is entered only when the backend shows the step "
        "READY/STARTED (timer fired); absent mid-attempt crashes the function runs exactly min(failures+1, max_attempts) "
        "times; on decline FAIL is recorded; a fixed family of at-most-once steps (table / packaged / no retry, top level, child, "
        "branch) is run with crashes on entry of the first attempt, of a retry attempt, and of both. (b) Pure half: create_retry_strategy over generated configs (max_attempts "
        "1-64, delays 0-3600 s, rate 1-10, all jitters, message/type filters) x attempts x errors with random.random fed "
        "from drawn floats (incl. 0.0 and 1-eps): should_retry <=> attempts<max and filter matches; delay == max(1, "
        "ceil(jitter(min(initial*rate^(n-1), max_delay)))) for the drawn sample, hence within [1, max(1, max_delay)]; the same law "
        "for every call of a HISTORY of 2-6 failures (classes and messages mixed) put to ONE strategy object. Decision-table "
        "strategies build a third of their decisions with the RetryDecision dataclass constructor instead of the factory. "
        "Non-trivial = >=2 attempts spanning >=2 invocations (workflow) or a retry decision with jitter != NONE (pure); "
        "distinct = (program shape, plan, outcomes) / (config, attempt, sample)."
    ),
    "assumptions": ["generator preconditions: max_attempts>=1, backoff rate in [1,10], attempts<=64 (no float overflow), delays are non-negative integers",
                    "the jitter source is random.random (replaced by drawn floats in the pure half, by the scheduler's fixed stream in workflows)"],
    "budget": {
        "quick": {"shards": 4, "random_cases": 110, "pure_cases": 1500, "min_nontrivial": 200},
        "thorough": {"shards": 16, "random_cases": 3000, "pure_cases": 40000, "min_nontrivial": 5000},
    },
}

_cfg = st.builds(
    lambda m, i, mx, r, j, types: {"max_attempts": m, "initial": i, "max_delay": mx, "rate": r, "jitter": j, "types": types, "errors": None},
    st.integers(1, 5), st.integers(0, 6), st.integers(0, 8), st.sampled_from([1, 1.5, 2, 3]), st.sampled_from(["NONE", "FULL", "HALF"]),
    st.sampled_from([None, None, ["UserError"], ["UserError", "ValueError"]]),
)


def _failing_steps():
    vals = G.tagged_values()
    retry = st.one_of(G.retry_specs(5), G.retry_specs(5), st.builds(lambda c: {"kind": "config", "cfg": c}, _cfg))
    return st.builds(
        lambda beh, retry, sem: {"op": "step", "beh": beh, "sem": sem, "retry": retry},
        st.one_of(
            st.builds(lambda k, e, v: {"kind": "fail_then_ret", "k": k, "err": e, "v": v}, st.integers(1, 4), st.sampled_from(G.ERRS), vals),
            st.builds(lambda e: {"kind": "always_fail", "err": e, "msg": "always"}, st.sampled_from(G.ERRS)),
            st.builds(lambda v: {"kind": "ret", "v": v}, vals),
        ),
        retry,
        st.sampled_from(["least", "least", "most"]),
    )


@st.composite
def cases(draw):
    body = []
    for _ in range(draw(st.integers(1, 3))):
        k = draw(st.sampled_from(["s", "s", "s", "child", "par", "wait", "try"]))
        s = draw(_failing_steps())
        if k == "s":
            body.append(s)
        elif k == "child":
            body.append({"op": "child", "body": [s]})
        elif k == "par":
            body.append({"op": "parallel", "branches": [[s], [draw(_failing_steps())]], "cfg": {"completion": {"min": None, "tol": 2, "pct": None}}})
        elif k == "wait":
            body += [draw(G.waits(3)), s]
        else:
            body.append({"op": "try", "body": s, "catch": ["CallableRuntimeError"], "handler": []})
    crashes = draw(st.lists(st.builds(lambda inv, at, n: {"inv": inv, "at": at, "n": n}, st.integers(0, 6), st.sampled_from(["api_before", "api_after", "api_after", "user"]), st.integers(0, 5)), max_size=2))
    return {"prog": {"body": body}, "backend": draw(G.backend_cfgs()), "plan": {"crashes": crashes}, "sched": draw(G.schedules()), "line": [],
            "randoms": draw(st.lists(st.sampled_from([0.0, 0.25, 0.5, 0.999999, 1 - 2**-53]), max_size=6))}


def nontrivial(run, case):
    by = {}
    for e in run.entries:
        if e["kind"] == "step":
            by.setdefault(e["path"], set()).add(e["inv"])
    if not any(len(v) >= 2 for v in by.values()):
        return None
    return [G.shape_of(case["prog"]), case["plan"]["crashes"], [i.get("outcome") for i in run.invocations]]


def classes(run, case):
    out = []
    if any(e.get("crashed") for e in run.entries):
        out.append("crash-inside-attempt")
    if any(i.get("outcome") == "crashed" for i in run.invocations) and not any(e.get("crashed") for e in run.entries):
        out.append("crash-between-attempts")
    if any(c["retry"] for c in run.strategy_calls if not c.get("wfc")):
        out.append("retry-decided")
    if any(not c["retry"] for c in run.strategy_calls if not c.get("wfc")):
        out.append("retry-declined")
    return out


# --------------------------------------------------------------------------- pure half

pure_cfgs = st.builds(
    lambda m, i, mx, r, j, errs, types: {"max_attempts": m, "initial": i, "max_delay": mx, "rate": r, "jitter": j, "errors": errs, "types": types},
    st.integers(1, 64), st.integers(0, 3600), st.integers(0, 3600), st.one_of(st.sampled_from([1, 1.5, 2, 10]), st.floats(1, 10)),
    st.sampled_from(["NONE", "FULL", "HALF"]),
    # plain strings are literal substrings (also when they contain regex metacharacters); {"re": ...} is a compiled pattern
    st.sampled_from([None, None, ["boom"], ["x", "always"], [], ["unavailable (503)"], ["[Errno 104]"], ["a.b", "x+"], [{"re": "a.b"}], [{"re": "^x+ y$"}, "(503)"]]),
    st.sampled_from([None, None, ["UserError"], ["ValueError", "UserError"], []]),
)
_MSGS = ["boom", "x y", "always", "", "upstream unavailable (503)", "unavailable 503", "[Errno 104] reset", "permission denied for object", "axb", "a.b", "xx y", "x+"]
pure_inputs = st.tuples(pure_cfgs, st.integers(1, 64), st.sampled_from(["UserError", "OtherUserError", "ValueError"]), st.sampled_from(_MSGS),
                        st.one_of(st.sampled_from([0.0, 0.5, 1 - 2**-53, 0.999999]), st.floats(0, 1, exclude_max=True)))


def _mk_strategy(cfg):
    from aws_durable_execution_sdk_python.config import Duration, JitterStrategy
    from aws_durable_execution_sdk_python.retries import RetryStrategyConfig, create_retry_strategy

    from ..wfrun import USER_ERRORS

    return create_retry_strategy(RetryStrategyConfig(
        max_attempts=cfg["max_attempts"], initial_delay=Duration(seconds=cfg["initial"]), max_delay=Duration(seconds=cfg["max_delay"]),
        backoff_rate=cfg["rate"], jitter_strategy=JitterStrategy(cfg["jitter"]),
        retryable_errors=[re.compile(p["re"]) if isinstance(p, dict) else p for p in cfg["errors"]] if cfg["errors"] is not None else None,
        retryable_error_types=[USER_ERRORS[x] for x in cfg["types"]] if cfg["types"] is not None else None))


def check_pure_seq(cfg, calls) -> list[dict]:
    """One strategy object (a module-level strategy in a warm container) consulted for a HISTORY of failures: each
    answer must be the law's answer for that call alone, whatever was asked before."""
    strat = _mk_strategy(cfg)
    out = []
    for i, (n, errname, msg, u) in enumerate(calls):
        for v in check_pure((cfg, n, errname, msg, u), strat=strat):
            out.append({**v, "kind": v["kind"] + ("_after_history" if i else ""), "detail": f"call #{i + 1} of {len(calls)} on one strategy object: " + v["detail"]})
        if out:
            break
    return out


def check_pure(inp, strat=None) -> list[dict]:
    from .. import detsched  # noqa: F401 - make sure random.random is the dispatcher (unmanaged -> real)
    import random as _r

    from ..wfrun import USER_ERRORS

    cfg, n, errname, msg, u = inp
    strat = strat or _mk_strategy(cfg)
    err = USER_ERRORS[errname](msg)
    old = _r.random
    _r.random = lambda: u
    try:
        d = strat(err, n)
    finally:
        _r.random = old
    out = []
    if cfg["errors"] is None and cfg["types"] is None:
        matches = True
    else:
        matches = any((re.search(p["re"], str(err)) is not None) if isinstance(p, dict) else (p in str(err)) for p in (cfg["errors"] or [])) or any(isinstance(err, USER_ERRORS[t]) for t in (cfg["types"] or []))
    want_retry = n < cfg["max_attempts"] and matches
    if d.should_retry != want_retry:
        out.append({"kind": "packaged_should_retry_wrong", "site": "max_attempts" if matches else "filter",
                    "detail": f"cfg={cfg} attempts_made={n} error={errname}({msg!r}): should_retry={d.should_retry}, expected {want_retry}"})
        return out
    if want_retry:
        base = min(cfg["initial"] * (cfg["rate"] ** (n - 1)), cfg["max_delay"])
        j = base if cfg["jitter"] == "NONE" else (base / 2 + u * (base / 2)) if cfg["jitter"] == "HALF" else u * base
        want = max(1, math.ceil(j))
        got = d.delay_seconds
        if got != want:
            out.append({"kind": "packaged_delay_wrong", "site": cfg["jitter"], "detail": f"cfg={cfg} attempts_made={n} u={u!r}: delay {got}, expected {want}"})
        if not (1 <= got <= max(1, cfg["max_delay"])):
            out.append({"kind": "packaged_delay_out_of_range", "site": cfg["jitter"], "detail": f"cfg={cfg} n={n} u={u!r}: delay {got} not in [1, {max(1, cfg['max_delay'])}]"})
    return out


def _pure_stage(ctx):
    @seed(ctx.seed + 5)
    @settings(max_examples=ctx.budget["pure_cases"], database=None, deadline=None, phases=[Phase.generate], suppress_health_check=list(HealthCheck))
    @given(pure_inputs)
    def t(inp):
        vs = check_pure(inp)
        cfg, n, e, m, u = inp
        nt = n < cfg["max_attempts"] and cfg["jitter"] != "NONE"
        ctx.case(nontrivial_key=["pure", cfg, n, round(u, 6)] if nt else None, classes=["pure", "pure:" + cfg["jitter"]],
                 sample={"pure": {"cfg": cfg, "attempts_made": n, "error": e, "u": u}} if nt and ctx.histogram["pure"] < 3 else None)
        for v in vs:
            ctx.violation(v["kind"], v["site"], v["detail"], {"pure": [cfg, n, e, m, u]})

    t()

    calls = st.lists(st.tuples(st.integers(1, 6), st.sampled_from(["UserError", "OtherUserError", "ValueError"]), st.sampled_from(["boom", "always", "x y", "unavailable (503)", "axb", "[Errno 104] reset", "object"]),
                               st.sampled_from([0.0, 0.5, 0.999999])), min_size=2, max_size=6)

    @seed(ctx.seed + 6)
    @settings(max_examples=max(50, ctx.budget["pure_cases"] // 5), database=None, deadline=None, phases=[Phase.generate], suppress_health_check=list(HealthCheck))
    @given(pure_cfgs, calls)
    def t2(cfg, cs):
        vs = check_pure_seq(cfg, [list(c) for c in cs])
        mixed = len({c[1] for c in cs}) >= 2 and len({c[2] for c in cs}) < len(cs) and (cfg["types"] or cfg["errors"])
        ctx.case(nontrivial_key=["pure-seq", cfg, [list(c) for c in cs]] if mixed else None, classes=["pure-history"] + (["pure-history:same-message-different-class"] if mixed else []), sample=None)
        for v in vs:
            ctx.violation(v["kind"], v["site"], v["detail"], {"pure_seq": [cfg, [list(c) for c in cs]]})

    t2()


def _interrupted_stage(ctx):
    """Construction instead of luck: at-most-once steps (decision table and packaged strategies) whose attempts are cut
    short by a crash on entry of the user function - in the first attempt, in a retry attempt, in both - at top level and
    inside a child context / parallel branch."""
    from .. import wfcheck as WC

    def most(retry, k=1):
        return {"op": "step", "beh": {"kind": "fail_then_ret", "k": k, "err": "UserError", "v": 1}, "sem": "most", "retry": retry}

    table = {"kind": "table", "max": 3, "delays": [1, 2], "nonretry": []}
    cfg = {"kind": "config", "cfg": {"max_attempts": 3, "initial": 2, "max_delay": 8, "rate": 2, "jitter": "NONE", "types": None, "errors": None}}
    none = {"kind": "none"}
    bases = []
    for retry in (table, cfg, none, {**table, "direct": True}):
        bases += [[most(retry)], [{"op": "child", "body": [most(retry)]}],
                  [{"op": "parallel", "branches": [[most(retry)], [most(table, 2)]], "cfg": {"completion": {"min": None, "tol": 2, "pct": None}}}]]
    plans = [[{"inv": 0, "at": "user", "n": 0}], [{"inv": 1, "at": "user", "n": 0}], [{"inv": 0, "at": "user", "n": 0}, {"inv": 1, "at": "user", "n": 0}],
             [{"inv": 2, "at": "user", "n": 0}], [{"inv": 0, "at": "api_after", "n": 0}], [{"inv": 1, "at": "api_after", "n": 0}]]
    n = 0
    for i, body in enumerate(bases):
        if ctx.nshards > 1 and i % ctx.nshards != ctx.shard % ctx.nshards:
            continue
        for crashes in plans:
            case = {"prog": {"body": body}, "backend": {"response": "delta"}, "plan": {"crashes": crashes}, "sched": [{"mode": "seq"}], "line": [], "randoms": [0.5]}
            WC.report_case(ctx, case, PROPS, nontrivial=nontrivial, classes=lambda r, c: ["interrupted-attempt-enumeration"] + classes(r, c))  # noqa: F821
            n += 1
    ctx.extra["interrupted_attempt_cases"] = n


install(globals(), props=("C12",), cases=cases, nontrivial=nontrivial, classes=classes, stages=(_pure_stage, _interrupted_stage))
_wf_replay = replay  # noqa: F821


def replay(case):
    if "pure" in case:
        c = case["pure"]
        return check_pure((c[0], c[1], c[2], c[3], c[4]))
    if "pure_seq" in case:
        return check_pure_seq(case["pure_seq"][0], case["pure_seq"][1])
    return _wf_replay(case)


_wf_min = minimise  # noqa: F821


def minimise(entry):
    if "pure" in entry["case"] or "pure_seq" in entry["case"]:
        return entry
    return _wf_min(entry)
