"""C13 - wait_for_condition threads its state through polls and stops when told to."""
from __future__ import annotations

from hypothesis import strategies as st

from .. import wfgen as G
from ..values import to_tagged
from ._wf import install

META = {
    "id": "C13",
    "level": "fault_enumeration",
    "engine": "workflow",
    "rule": (
        "Case = program with wait_for_condition calls (initial state and per-poll transformer over the serializer's domain: "
        "append/count/dict growth, same-object, in-place mutation, scripted sequences with equal-but-distinct values such "
        "as 1/True/1.0; decision sequence continue(d_i in 0..60)/stop at poll n<=6, or create_wait_strategy(config); "
        "default or JSON serdes; check functions that raise at poll k), at top level and inside child contexts and "
        "map/parallel branches, x crash plans between and inside polls x schedules x backend flags. Oracle on RECORDED "
        "polls: the check function receives the initial state before any recorded continue and otherwise exactly the "
        "state returned by the poll that produced the last recorded continue (type-aware); the strategy's attempt number "
        "is 1 + recorded continues; every recorded continue carries the state payload and delay max(1, d); SUCCEED is "
        "recorded exactly after a stop decision and the call returns that poll's state in this and every later "
        "invocation; no poll after SUCCEED/FAIL was recorded; PENDING only after the continue was accepted. Non-trivial = "
        ">=3 polls over >=2 invocations with a non-primitive state; distinct = (program shape, plan, outcomes)."
    ),
    "assumptions": ["a poll whose RETRY/SUCCEED never reached the backend (crash) is legitimately repeated with the same (state, attempt)"],
    "budget": {
        "quick": {"shards": 4, "random_cases": 140, "min_nontrivial": 40},
        "thorough": {"shards": 16, "random_cases": 4000, "min_nontrivial": 1200},
    },
}

_inits = st.sampled_from([to_tagged([]), to_tagged({"a": 1}), to_tagged([1, "x"]), to_tagged(0), to_tagged({"n": [1, (2, 3)]}), to_tagged((1, 2)), to_tagged([b"\x00"])])
_seqs = st.lists(st.sampled_from([to_tagged(1), to_tagged(True), to_tagged(1.0), to_tagged([1]), to_tagged((1,)), to_tagged("1"), to_tagged({"a": 1}), to_tagged(2), to_tagged(None), to_tagged(0), to_tagged([]), to_tagged("")]), min_size=2, max_size=6)


@st.composite
def wfcond(draw):
    n_cont = draw(st.integers(0, 5))
    decs = [["continue", draw(st.sampled_from([0, 1, 1, 2, 5, 30, 60]))] for _ in range(n_cont)] + [["stop"]]
    trans = draw(st.sampled_from(["append", "append", "dict", "count", "same", "inplace", "seq"]))
    s = {"op": "wfcond", "init": draw(_inits), "decisions": decs, "trans": trans}
    if trans == "seq":
        s["seq"] = draw(_seqs)
    if trans in ("append", "count", "same") and draw(st.integers(0, 3)) == 0:
        s["serdes"] = "json"
        s["init"] = draw(st.sampled_from([to_tagged([]), to_tagged(0), to_tagged({"a": 1})]))
    if draw(st.integers(0, 2)) == 0:
        s["direct"] = True  # decisions built with the dataclass constructor instead of the factory
    if trans in ("append", "count", "dict") and draw(st.integers(0, 4)) == 0:
        s["until"] = draw(st.integers(1, 5))  # purely state-based stop rule
    if draw(st.integers(0, 9)) == 0:
        s["strat_fail_at"] = draw(st.integers(1, n_cont + 1))  # the wait strategy raises at that poll
    if draw(st.integers(0, 7)) == 0:
        s["fail_at"] = draw(st.integers(1, n_cont + 1))
    if draw(st.integers(0, 6)) == 0:
        s.pop("serdes", None)
        s["trans"] = "append"
        s["init"] = to_tagged([])
        s["packaged"] = {"until": draw(st.integers(1, 4)), "max_attempts": draw(st.integers(1, 5)), "initial": draw(st.integers(0, 5)),
                         "max_delay": draw(st.integers(0, 8)), "rate": draw(st.sampled_from([1, 1.5, 2])), "jitter": draw(st.sampled_from(["NONE", "FULL", "HALF"]))}
    return s


@st.composite
def cases(draw):
    body = []
    for _ in range(draw(st.integers(1, 2))):
        w = draw(wfcond())
        k = draw(st.sampled_from(["top", "top", "child", "par", "map", "after-step", "try"]))
        if k == "top":
            body.append(w)
        elif k == "try":
            # the workflow catches whatever the condition raises and carries on (then suspends, so that the call is replayed)
            body += [{"op": "try", "body": w, "catch": ["Exception"], "handler": []}, draw(G.waits(2))]
        elif k == "child":
            body.append({"op": "child", "body": [w]})
        elif k == "par":
            body.append({"op": "parallel", "branches": [[w], [draw(G.steps(allow_fail=False)), draw(wfcond())]], "cfg": {"completion": {"min": None, "tol": 2, "pct": None}}})
        elif k == "map":
            body.append({"op": "map", "items": [to_tagged(1), to_tagged(2)], "body": [w], "cfg": {"completion": {"min": None, "tol": 2, "pct": None}}})
        else:
            body += [draw(G.steps(allow_fail=False)), w]
    if draw(st.booleans()):
        body.append(draw(G.waits(3)))  # forces one more replay of the completed condition
    crashes = draw(st.lists(st.builds(lambda inv, at, n: {"inv": inv, "at": at, "n": n}, st.integers(0, 6), st.sampled_from(["api_before", "api_after", "user", "user"]), st.integers(0, 4)), max_size=2))
    return {"prog": {"body": body}, "backend": draw(G.backend_cfgs()), "plan": {"crashes": crashes}, "sched": draw(G.schedules()), "line": [],
            "randoms": draw(st.lists(st.sampled_from([0.0, 0.3, 0.999999]), max_size=4))}


def nontrivial(run, case):
    by = {}
    for p in run.polls:
        by.setdefault(p["path"], []).append(p)
    ok = False
    for path, ps in by.items():
        if len(ps) >= 3 and len({p["inv"] for p in ps}) >= 2 and any(isinstance(p["state_in"], (list, dict)) for p in ps):
            ok = True
    if not ok:
        return None
    return [G.shape_of(case["prog"]), case["plan"]["crashes"], [i.get("outcome") for i in run.invocations]]


def classes(run, case):
    out = []
    if any(e.get("crashed") and e["kind"] == "check" for e in run.entries):
        out.append("crash-inside-poll")
    if any(p.get("failed") for p in run.polls):
        out.append("check-raised")
    n = max([sum(1 for p in run.polls if p["path"] == q["path"]) for q in run.polls] or [0])
    if n >= 4:
        out.append("polls>=4")
    return out


install(globals(), props=("C13",), cases=cases, nontrivial=nontrivial, classes=classes)
