"""C14 - callbacks and invokes: stable identity, faithful outcome, deferred errors."""
from __future__ import annotations

from hypothesis import strategies as st

from .. import wfgen as G
from ._wf import install

META = {
    "id": "C14",
    "level": "exploration",
    "engine": "workflow",
    "rule": (
        "Case = program with create_callback ... code ... result(), wait_for_callback and invoke (payloads: strings for "
        "callbacks, JSON values for invokes; tenant ids; timeouts), at top level and in child contexts/branches, x a "
        "(also inside a parallel branch that is re-run within one invocation next to a slow sibling); simulated external party per operation: outcome in {success, failure, timeout, heartbeat timeout, cancel, stop}, "
        "with or without an error object, delivered at a generated instant (immediately in the START response, before "
        "the next backend call of the same invocation, or after the k-th suspension) x crash plans x schedules x backend "
        "flags (paged checkpoint responses). Oracle: the callback id is the one the backend issued, identical in every "
        "invocation; create_callback never raises; the code between create and result runs in every invocation that "
        "reaches it; result() delivers exactly the payload after SUCCEEDED, CallbackError after FAILED/TIMED_OUT/"
        "CANCELLED/STOPPED and nothing while outstanding; invoke sends exactly one START with serialized payload, "
        "function name and tenant, then the deserialized result or CallableRuntimeError carrying the recorded error. "
        "Non-trivial = an external completion between two invocations of a callback that has code between create and "
        "result, or a non-success outcome; distinct = (program shape, external plan, outcomes)."
        " Plus LinePreempt sweeps over state.py for four fixed programs (paged and unpaged responses)."
    ),
    "assumptions": ["the external party answers each operation at most once; invoke results are JSON texts as the service returns them, or arbitrary text (including the empty string) where the call configures a plain-text result serializer"],
    "budget": {
        "quick": {"shards": 4, "random_cases": 150, "min_nontrivial": 40},
        "thorough": {"shards": 16, "random_cases": 4000, "min_nontrivial": 1200},
    },
}

OUTCOMES = ["success", "success", "failure", "timeout", "heartbeat", "cancel", "stop"]


@st.composite
def cases(draw):
    body = []
    ext = []

    def ext_for(path, kind):
        oc = draw(st.sampled_from(OUTCOMES))
        e = {"path": path, "outcome": oc, "when": draw(st.sampled_from(["between", "between", "immediate", "next_api"])),
             "after_pending": draw(st.sampled_from([0, 0, 1]))}
        if oc == "success":
            e["payload"] = draw(st.text(max_size=6)) if kind == "cb" else draw(G.json_values)
            if draw(st.integers(0, 5)) == 0:
                e["no_payload"] = True  # completed successfully without any result
        else:
            if draw(st.integers(0, 3)) == 0:
                e["no_error"] = True
            else:
                e["error"] = {"ErrorMessage": draw(st.sampled_from(["ext failed", "nope", ""])) or "x", "ErrorType": draw(st.sampled_from(["ExtError", "Timeout"]))}
        ext.append(e)

    def stmt(prefix, i):
        p = f"{prefix}/{i}"
        k = draw(st.sampled_from(["cb", "cb", "wfcb", "invoke", "invoke", "step"]))
        if k == "cb":
            n_between = draw(st.integers(0, 2))
            between = [draw(G.steps(allow_fail=False)) for _ in range(n_between)]
            ext_for(p, "cb")
            s = {"op": "callback", "between": between}
            if draw(st.integers(0, 3)) == 0:
                s["timeout"] = draw(st.integers(1, 30))
            return s
        if k == "wfcb":
            ext_for(p + "#cbid", "cb")
            return {"op": "wfcb"}
        if k == "invoke":
            ext_for(p, "invoke")
            text = draw(st.integers(0, 3)) == 0
            if text:
                # the caller configured a plain-text result serializer: the recorded result is handed to it verbatim
                ext[-1]["raw"] = True
                ext[-1]["payload"] = draw(st.sampled_from(["", "", "a,b", " ", "0", "null"]))
            return {"op": "invoke", "fn": draw(st.sampled_from(["fn-a", "arn:aws:lambda:x:fn-b"])), "payload": draw(G.json_values), **({"serdes": "text"} if text else {}),
                    "tenant": draw(st.sampled_from([None, None, "tenant-1"])), **({"timeout": draw(st.integers(1, 20))} if draw(st.integers(0, 4)) == 0 else {})}
        return draw(G.steps(allow_fail=False))

    n = draw(st.integers(1, 3))
    for i in range(n):
        wrap = draw(st.sampled_from(["top", "top", "try", "child", "rerun"]))
        if wrap == "rerun":
            # a branch that holds a callback / invoke and is run again INSIDE one invocation: it parks on a 1 s timer while
            # a sibling keeps the map/parallel alive, so the executor's timer thread resubmits it
            k2 = draw(st.sampled_from(["cb", "invoke", "invoke-timeout"]))
            bp = f"root/{i}/0"
            if k2 == "cb":
                ext_for(f"{bp}/0", "cb")
                branch = [{"op": "callback", "between": [{"op": "wait", "secs": 1}]}, draw(G.steps(allow_fail=False))]
            elif k2 == "invoke":
                ext_for(f"{bp}/1", "invoke")
                branch = [{"op": "wait", "secs": 1}, {"op": "invoke", "fn": "fn-a", "payload": draw(G.json_values), "tenant": None}]
            else:
                ext_for(f"{bp}/0", "invoke")
                branch = [{"op": "invoke", "fn": "fn-a", "payload": draw(G.json_values), "tenant": None, "timeout": 1}]
            for e in ext[-1:]:
                e["when"] = "between"
                e["after_pending"] = 0
            slow = [{"op": "step", "beh": {"kind": "ret", "v": 7}, "sem": "least", "retry": {"kind": "none"}, "sleep": draw(st.sampled_from([2.5, 3.5]))}]
            body.append({"op": "parallel", "branches": [branch, slow], "cfg": {"max_concurrency": None, "completion": {"min": None, "tol": 2, "pct": None}}})
        elif wrap == "top":
            body.append(stmt("root", i))
        elif wrap == "try":
            inner = stmt(f"root/{i}", "t").copy() if False else None
            # the try body lives at path root/i/t
            k_before = len(ext)
            s = stmt("root", i)
            for e in ext[k_before:]:
                e["path"] = e["path"].replace(f"root/{i}", f"root/{i}/t", 1)
            body.append({"op": "try", "body": s, "catch": ["CallableRuntimeError", "CallbackError"], "handler": []})
        else:
            k_before = len(ext)
            s = stmt(f"root/{i}", 0)
            body.append({"op": "child", "body": [s]})
    if draw(st.booleans()):
        body.append(draw(G.waits(3)))
    crashes = draw(st.lists(st.builds(lambda inv, at, n_: {"inv": inv, "at": at, "n": n_}, st.integers(0, 4), st.sampled_from(["api_before", "api_after", "user"]), st.integers(0, 4)), max_size=1))
    return {"prog": {"body": body}, "backend": draw(G.backend_cfgs()), "plan": {"crashes": crashes, "external": ext}, "sched": draw(G.schedules()), "line": []}


def nontrivial(run, case):
    b = run.backend
    nonsuccess = any(op["Type"] in ("CALLBACK", "CHAINED_INVOKE") and op["Status"] in ("FAILED", "TIMED_OUT", "CANCELLED", "STOPPED") for op in b.ops.values())
    between = any(s["op"] == "callback" and s.get("between") for _, s in G.program_paths(case["prog"])) and len(run.invocations) >= 2
    if not (nonsuccess or between):
        return None
    return [G.shape_of(case["prog"]), [(e["path"], e["outcome"], e["when"]) for e in case["plan"]["external"]], [i.get("outcome") for i in run.invocations]]


def classes(run, case):
    b = run.backend
    out = []
    for op in b.ops.values():
        if op["Type"] in ("CALLBACK", "CHAINED_INVOKE"):
            out.append(f"{op['Type']}:{op['Status']}")
    for e in case["plan"]["external"]:
        out.append("deliver:" + e["when"])
    return sorted(set(out))


def _sweep_stage(ctx):
    """One long preemption at every executed source line of state.py (hand-over, merge of responses, release of waiters)."""
    from .. import wfcheck as WC
    from .c03 import _S

    bases = [
        ("wait; step", [{"op": "wait", "secs": 1}, _S(1)], 1),
        ("callback{step}; invoke", [{"op": "callback", "between": [_S(2)]}, {"op": "invoke", "fn": "f", "payload": {"a": 1}, "tenant": "t"}], 1),
        ("parallel{wait(1)+step | slow step}", [{"op": "parallel", "branches": [[_S(1), {"op": "wait", "secs": 1}, _S(3)], [_S(2, sleep=2.5)]],
                                                   "cfg": {"completion": {"min": None, "tol": 2, "pct": None}}}], None),
        ("wait_for_callback; wfcond", [{"op": "wfcb"}, {"op": "wfcond", "init": 0, "decisions": [["continue", 1], ["stop"]], "trans": "count"}], 2),
    ]
    for i, (label, body, page) in enumerate(bases):
        if ctx.nshards > 1 and i % ctx.nshards != ctx.shard % ctx.nshards:
            continue
        base = {"prog": {"body": body}, "backend": {"response": "delta", "page_size": page, "state_page": 1}, "plan": {"crashes": [], "external": []}, "line": ["state"]}
        WC.line_preempt_sweep(ctx, base, PROPS, nontrivial=nontrivial, classes=lambda r, c: ["one-long-preemption-at-a-line"],
                              limit=ctx.budget.get("sweep_limit", 600), label="one long preemption per line of state.py: " + label)


install(globals(), props=("C14",), cases=cases, nontrivial=nontrivial, classes=classes, stages=(_sweep_stage,))
