"""C15 - default serialization round-trips every accepted value exactly (pure-data PBT)."""
from __future__ import annotations

import random

from hypothesis import HealthCheck, Phase, find, given, seed, settings
from hypothesis.errors import NoSuchExample

from .. import ensure_repo_on_path
from ..values import (
    accepted_values,
    depth,
    from_tagged,
    has_extended,
    rejected_values,
    shape,
    teq,
    to_tagged,
)

ensure_repo_on_path()

META = {
    "id": "C15",
    "level": "exploration",
    "engine": "pure",
    "rule": (
        "Hypothesis-generated values of the serializer's type grammar (recursive: None/bool/int/float/str/bytes/UUID/"
        "Decimal/datetime/date leaves; list/tuple/str-keyed dict/BatchResult/envelope look-alike containers) are sent "
        "through serialize->deserialize (public functions and ExtendedTypeSerDes) and compared with a type-aware "
        "equality (same type at every level, NaN==NaN, -0.0!=0.0, Decimal by as_tuple); a second generator embeds one "
        "unrepresentable value (non-str dict key, set, object, complex) and demands rejection or exact restoration. "
        "Non-trivial = >=2 container levels or >=1 extended type (bytes/UUID/Decimal/date/datetime/tuple/BatchResult); "
        "distinct = distinct structural shape (types only)."
    ),
    "assumptions": [
        "values are exact instances of the listed types (no subclasses such as enum members or bytearray)",
        "BatchResult error objects carry at least one field (an all-empty error object is not representable on the wire)",
        "datetime equality is instant + utcoffset (the tzinfo class and the fold bit are not part of ==)",
    ],
    "budget": {
        "quick": {"shards": 4, "accepted": 1500, "rejected": 500, "min_nontrivial": 200},
        "thorough": {"shards": 16, "accepted": 25000, "rejected": 6000, "min_nontrivial": 2000},
    },
}


def _api():
    from aws_durable_execution_sdk_python import serdes as S

    return S


def check_value(x, *, expect_reject: bool) -> list[dict]:
    """The oracle. Returns violations for one value."""
    S = _api()
    out: list[dict] = []
    paths = (
        ("public", lambda v: S.serialize(None, v, "op", "arn"), lambda s: S.deserialize(None, s, "op", "arn")),
        ("ExtendedTypeSerDes", lambda v: S.ExtendedTypeSerDes().serialize(v, S.SerDesContext("op", "arn")),
         lambda s: S.ExtendedTypeSerDes().deserialize(s, S.SerDesContext("op", "arn"))),
    )
    for name, ser, de in paths:
        try:
            text = ser(x)
        except Exception as e:  # noqa: BLE001 - rejection is any exception from serialize
            if not expect_reject and not _platform_cannot_represent(x):
                out.append(
                    {"kind": "accepted_grammar_rejected", "site": _root_cause(e),
                     "detail": f"value of the documented grammar was rejected: {e!r}"}
                )
            continue
        if not isinstance(text, str):
            out.append({"kind": "not_text", "site": name, "detail": f"serialize returned {type(text).__name__}"})
            continue
        try:
            y = de(text)
        except Exception as e:  # noqa: BLE001
            out.append(
                {"kind": "accepted_but_unrestorable", "site": _root_cause(e),
                 "detail": f"serialize accepted the value, deserialize raised {e!r}; text={text[:200]!r}"}
            )
            continue
        if not teq(x, y):
            kind = "silently_altered" if expect_reject else "roundtrip_mismatch"
            out.append(
                {"kind": kind, "site": _diff_site(x, y),
                 "detail": f"[{name}] in={x!r} out={y!r} text={text[:200]!r}"}
            )
            continue
        # a decoded value belongs to its caller: editing it in place must not change what the same text decodes to next
        if _edit_in_place(y):
            try:
                z = de(text)
            except Exception as e:  # noqa: BLE001
                out.append({"kind": "second_decode_raised", "site": _root_cause(e), "detail": f"[{name}] text={text[:200]!r}: {e!r}"})
                continue
            if not teq(x, z):
                out.append({"kind": "decoded_values_share_state", "site": type(x).__name__,
                            "detail": f"[{name}] the first decoded value was edited in place; decoding the same text again gave {z!r} instead of {x!r}"})
    return out


def _edit_in_place(v, depth=0) -> bool:
    """Edit the first mutable container found in v (depth-first). Returns whether something was edited."""
    if depth > 6:
        return False
    if isinstance(v, list):
        v.append("edited-by-caller")
        return True
    if isinstance(v, dict):
        v["edited-by-caller"] = True
        return True
    if isinstance(v, (set, bytearray)):
        v.clear() if v else (v.add(1) if isinstance(v, set) else v.extend(b"x"))
        return True
    if hasattr(v, "all") and isinstance(getattr(v, "all"), list):
        v.all.append(None)
        return True
    if isinstance(v, tuple):
        return any(_edit_in_place(e, depth + 1) for e in v)
    return False


def _platform_cannot_represent(v) -> bool:
    """datetimes whose UTC offset is a non-zero fraction of a second: isoformat()/fromisoformat() cannot carry them
    (CPython drops the offset), so the only correct behaviours are rejection or exact restoration."""
    import datetime as _dt

    from aws_durable_execution_sdk_python.concurrency.models import BatchResult

    if isinstance(v, _dt.datetime):
        off = v.utcoffset()
        return off is not None and abs(off) < _dt.timedelta(seconds=1) and off != _dt.timedelta(0)
    if isinstance(v, (list, tuple)):
        return any(_platform_cannot_represent(x) for x in v)
    if isinstance(v, dict):
        return any(_platform_cannot_represent(x) for x in v.values())
    if isinstance(v, BatchResult):
        return any(_platform_cannot_represent(i.result) for i in v.all)
    return False


def _root_cause(e: BaseException) -> str:
    c = e
    while c.__cause__ is not None:
        c = c.__cause__
    return type(c).__name__


def _diff_site(a, b, path="") -> str:
    """Coarse location/type of the first difference: used as the root-cause signature."""
    from aws_durable_execution_sdk_python.concurrency.models import BatchResult

    if type(a) is not type(b):
        return f"{type(a).__name__}->{type(b).__name__}"
    if isinstance(a, (list, tuple)):
        if len(a) != len(b):
            return f"{type(a).__name__}-len"
        for x, y in zip(a, b):
            if not teq(x, y):
                return _diff_site(x, y)
    if isinstance(a, dict):
        ka = {(type(k).__name__) for k in a}
        kb = {(type(k).__name__) for k in b}
        if ka != kb:
            return "dict-nonstr-key" if kb == {"str"} else "dict-keytype"
        if set(map(repr, a)) != set(map(repr, b)):
            return "dict-keys"
        for k in a:
            if k in b and not teq(a[k], b[k]):
                return _diff_site(a[k], b[k])
    if isinstance(a, BatchResult):
        if a.completion_reason is not b.completion_reason:
            return "batch-reason"
        for x, y in zip(a.all, b.all):
            if not teq(x, y):
                if not teq(x.result, y.result):
                    return _diff_site(x.result, y.result)
                return "batch-item"
    return f"{type(a).__name__}-value"


def shard(ctx) -> None:
    b = ctx.budget
    st_settings = dict(
        database=None,
        deadline=None,
        phases=[Phase.generate],
        suppress_health_check=list(HealthCheck),
        report_multiple_bugs=False,
    )

    @seed(ctx.seed)
    @settings(max_examples=b["accepted"], **st_settings)
    @given(accepted_values)
    def accepted(x):
        vs = check_value(x, expect_reject=False)
        nt = depth(x) >= 2 or has_extended(x)
        tagged = to_tagged(x)
        ctx.case(
            nontrivial_key=shape(x) if nt else None,
            classes=[c for c, on in (("accepted", True), ("nontrivial", nt), ("depth>=3", depth(x) >= 3),
                                     ("lookalike", _has_lookalike(x))) if on],
            sample={"value": tagged, "kind": "accepted"} if nt and depth(x) >= 2 else None,
        )
        for v in vs:
            ctx.violation(v["kind"], v["site"], v["detail"], {"value": tagged, "expect_reject": False})

    @seed(ctx.seed + 1)
    @settings(max_examples=b["rejected"], **st_settings)
    @given(rejected_values)
    def rejected(x):
        vs = check_value(x, expect_reject=True)
        tagged = to_tagged(x)
        ctx.case(nontrivial_key=["reject", shape(x)], classes=["reject-set"],
                 sample={"value": tagged, "kind": "reject-set"} if ctx.histogram["reject-set"] < 2 else None)
        for v in vs:
            ctx.violation(v["kind"], v["site"], v["detail"], {"value": tagged, "expect_reject": True})

    accepted()
    rejected()
    if ctx.tier == "thorough" and ctx.shard < 4:
        _atheris_stage(ctx)


def _has_lookalike(v) -> bool:
    if isinstance(v, dict):
        return ("t" in v or "v" in v) or any(_has_lookalike(x) for x in v.values())
    if isinstance(v, (list, tuple)):
        return any(_has_lookalike(x) for x in v)
    return False


def _atheris_stage(ctx) -> None:
    """Coverage-guided stage: the same property driven through hypothesis' fuzz_one_input by atheris
    (libFuzzer) with the serdes module instrumented. Skipped (with a note) if atheris is not importable."""
    from ..fuzz import run_atheris_on_hypothesis

    hits: list = []

    @settings(database=None, deadline=None, suppress_health_check=list(HealthCheck))
    @given(accepted_values)
    def prop(x):
        vs = check_value(x, expect_reject=False)
        ctx.extra["atheris_execs"] = ctx.extra.get("atheris_execs", 0) + 1
        for v in vs:
            ctx.violation(v["kind"], v["site"], v["detail"], {"value": to_tagged(x), "expect_reject": False})
            hits.append(v)

    note = run_atheris_on_hypothesis(
        prop, include=["aws_durable_execution_sdk_python.serdes"], runs=ctx.budget.get("atheris_runs", 30000), seed=ctx.seed
    )
    ctx.notes.append(f"atheris stage shard {ctx.shard}: {note}")


def replay(case: dict) -> list[dict]:
    return check_value(from_tagged(case["value"]), expect_reject=case["expect_reject"])


def minimise(entry: dict) -> dict:
    sig = (entry["kind"], entry["site"])
    strat = rejected_values if entry["case"]["expect_reject"] else accepted_values

    def bad(x):
        return any((v["kind"], v["site"]) == sig for v in check_value(x, expect_reject=entry["case"]["expect_reject"]))

    try:
        x = find(
            strat,
            bad,
            settings=settings(max_examples=4000, database=None, deadline=None, suppress_health_check=list(HealthCheck)),
            random=random.Random(0),
        )
    except NoSuchExample:
        return entry
    vs = [v for v in check_value(x, expect_reject=entry["case"]["expect_reject"]) if (v["kind"], v["site"]) == sig]
    return {**entry, "detail": vs[0]["detail"], "case": {"value": to_tagged(x), "expect_reject": entry["case"]["expect_reject"]}}
