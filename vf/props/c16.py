"""C16 - oversized results stay out of checkpoints and responses yet are fully recovered."""
from __future__ import annotations

import json

from hypothesis import strategies as st

from .. import wfgen as G
from ..simbackend import TERMINAL
from ..values import teq, to_tagged
from ._wf import install

META = {
    "id": "C16",
    "level": "exploration",
    "engine": "workflow",
    "rule": (
        "Case = child context / parallel / map whose serialized result has length L+d for d in {-2..+2, +-1K, x2} around the "
        "checkpoint limit L (child results are padded to an exact serialized length computed by a probe serialization; "
        "batch results are pushed over L by branch payloads that are individually below L, or individually above it), with/without summary "
        "generator, nested, with failing branches, followed by a wait and crashes so that replays happen; handler "
        "results/errors of size R+d around the response limit R (ASCII, 2-byte text sized by its escaped length, and 3-byte text whose "
        "character count is below R while its UTF-8 size is above). Mass exploration patches both "
        "constants down from the test side (L in {600..4000}, R in {800..5000}); a few cases per run use the true "
        "256 KB / 6 MB constants. Oracle: no CONTEXT payload longer than L; ReplayChildren set iff the (known) serialized "
        "length exceeds L; every replay delivers a value equal to the first run's, enters no completed user function and "
        "sends no record for that subtree; an oversized handler result/error is recorded as the execution's result before "
        "the wrapper returns the status with an empty payload, a fitting one is returned inline and no larger than R "
        "bytes. Non-trivial = a result within +-2 of a limit, or a ReplayChildren replay; distinct = (shape, sizes, limits, outcomes)."
    ),
    "assumptions": ["both limits are module constants read at call time; patching them from the test side does not change the code path taken"],
    "budget": {
        "quick": {"shards": 4, "random_cases": 200, "min_nontrivial": 60},
        "thorough": {"shards": 16, "random_cases": 5000, "min_nontrivial": 2000},
    },
}


def mon_c16(run, case):
    b = run.backend
    L = run.limits["checkpoint"]
    R = run.limits["response"]
    # 1. no CONTEXT payload above the limit
    for e in b.log:
        u = e["upd"]
        if u["Type"] == "CONTEXT" and u["Action"] == "SUCCEED" and u.get("Payload") is not None and len(u["Payload"]) > L:
            run.v("C16", "context_payload_above_limit", u.get("SubType") or "context", f"{b.path_of.get(u['Id'])}: payload of {len(u['Payload'])} chars > limit {L}")
    # 2. ReplayChildren iff oversize (exact for padded child contexts)
    sizes = (run.world or {}).get("sizes", {})
    for path, n in sizes.items():
        op = b.ops.get(b.by_path.get(path, ""))
        if op is None or op["Status"] != "SUCCEEDED":
            continue
        rc = bool(op.get("ReplayChildren"))
        if rc != (n > L):
            run.v("C16", "replay_children_flag_wrong", "set-when-fitting" if rc else "unset-when-oversize",
                  f"{path}: serialized result is {n} chars, limit {L}, ReplayChildren={rc}")
    # 3. replay equality + no re-execution + no new records: C02/C01/C11 monitors restricted to the oversize subtrees
    big = {op["_path"] for op in b.ops.values() if op["Type"] == "CONTEXT" and op.get("ReplayChildren")}
    for v in list(run.violations):
        if v["property"] in ("C01", "C02", "C11"):
            d = v["detail"]
            if any(p in d for p in big):
                run.v("C16", f"oversize_replay:{v['kind']}", v["site"], d)
    for v in list(run.violations):
        if v["property"] == "C09" and v["kind"] == "item_status_wrong" and v["site"].endswith(":large-result"):
            run.v("C16", "oversize_branch_result_lost", "branch", v["detail"])
    first = {}
    for o in run.obs:
        if o["path"] in big and o["out"] in ("value", "exc"):
            if o["path"] not in first:
                first[o["path"]] = o
            else:
                f = first[o["path"]]
                same = (f["out"] == o["out"]) and (teq(f.get("value"), o.get("value")) if o["out"] == "value" else (f["exc"], f["msg"]) == (o["exc"], o["msg"]))
                if not same:
                    run.v("C16", "rebuilt_result_differs", o["kind"], f"{o['path']}: first run {str(f.get('value', f.get('exc')))[:200]!r}, replay (inv {o['inv']}) {str(o.get('value', o.get('exc')))[:200]!r}")
    # 4. handler result / error around the response limit
    for inv in run.invocations:
        out = inv.get("output")
        if not isinstance(out, dict) or out.get("Status") not in ("SUCCEEDED", "FAILED"):
            continue
        recorded = b.closed is not None
        if out["Status"] == "SUCCEEDED":
            res = out.get("Result")
            if res == "":
                if not recorded:
                    run.v("C16", "empty_result_without_execution_record", "SUCCEEDED", "wrapper returned an empty Result but no EXECUTION SUCCEED was accepted")
            elif isinstance(res, str):
                nbytes = len(res.encode("utf-8", "surrogatepass"))
                if nbytes > R:
                    run.v("C16", "oversize_result_returned_inline", "SUCCEEDED", f"Result of {nbytes} bytes returned inline, response limit {R}")
                want = (case.get("c16") or {}).get("result_len")
                if want is not None and want <= R and recorded:
                    run.v("C16", "fitting_result_checkpointed", "SUCCEEDED", f"result of {want} chars <= limit {R} was recorded as execution result")
        else:
            ser = json.dumps(out)
            if "Error" not in out:
                if not recorded:
                    run.v("C16", "empty_error_without_execution_record", "FAILED", "wrapper returned FAILED without Error but no EXECUTION FAIL was accepted")
            elif len(ser.encode("utf-8", "surrogatepass")) > R:
                run.v("C16", "oversize_error_returned_inline", "FAILED", f"FAILED response of {len(ser)} bytes returned inline, response limit {R}")


@st.composite
def cases(draw):
    real = draw(st.integers(0, 24)) == 0
    L = 256 * 1024 if real else draw(st.sampled_from([600, 1000, 2000, 4000]))
    R = (6 * 1024 * 1024 - 50) if real else draw(st.sampled_from([800, 1500, 5000]))
    delta = st.sampled_from([-2, -1, 0, 1, 2, -1000 if not real else -1024, 1000 if not real else 1024, None])
    vals = G.tagged_values()
    step = G.steps(vals, allow_fail=False)
    kind = draw(st.sampled_from(["child", "child", "parallel", "map", "nested", "handler_ok", "handler_err", "early", "op_err"]))
    body = []
    info = {}
    hb = None
    if kind in ("child", "nested"):
        d = draw(delta)
        target = max(40, (L * 2) if d is None else L + d)
        ch = {"op": "child", "body": draw(st.lists(step, min_size=1, max_size=2)), "pad_to": target}
        if draw(st.booleans()):
            ch["summary"] = True
        if draw(st.integers(0, 4)) == 0:
            ch["serdes"] = "json"
            ch["body"] = [{"op": "step", "beh": {"kind": "ret", "v": draw(G.json_values)}, "sem": "least", "retry": {"kind": "none"}}]
        if kind == "nested":
            ch = {"op": "child", "body": [ch, draw(step)]}
        body = [ch]
    elif kind in ("parallel", "map"):
        n = draw(st.integers(2, 3))
        per = max(10, int(L * draw(st.sampled_from([0.2, 0.45, 0.6, 0.9, 1.2, 2.5])))) if not real else int(L * draw(st.sampled_from([0.3, 0.45, 0.6, 1.1])))
        failing = draw(st.booleans())
        summ = draw(st.sampled_from([None, "none", "custom"]))
        comp = {"min": None, "tol": n, "pct": None}
        if kind == "parallel":
            brs = [[{"op": "step", "beh": {"kind": "big", "n": per, "ch": "abc"[i % 3]}, "sem": "least", "retry": {"kind": "none"}}] for i in range(n)]
            if failing:
                brs.append([draw(st.sampled_from([
                    {"op": "step", "beh": {"kind": "always_fail", "err": "ValueError", "msg": "branch failed"}, "sem": "least", "retry": {"kind": "none"}},
                    {"op": "raise", "exc": {"cls": "ValueError", "msg": "branch raised"}},
                    {"op": "raise", "exc": {"cls": "KeyError", "msg": "k"}}]))])
            body = [{"op": "parallel", "branches": brs, "cfg": {"completion": {"min": None, "tol": n + 1, "pct": None}, "summary": summ,
                                                               **({"item_serdes": "fragile"} if draw(st.integers(0, 2)) == 0 else {})}}]
        else:
            body = [{"op": "map", "items": [to_tagged(i) for i in range(n)], "body": [{"op": "step", "beh": {"kind": "big", "n": per}, "sem": "least", "retry": {"kind": "none"}}],
                     "cfg": {"completion": comp, "summary": summ, **({"item_serdes": "fragile"} if draw(st.integers(0, 2)) == 0 else {})}}]
    elif kind == "early":
        # decided by its first (oversized) result under a concurrency limit of 1: the other branches never start; the call
        # is recorded with ReplayChildren and rebuilt from its children on replay
        n = draw(st.integers(2, 4))
        big = {"op": "step", "beh": {"kind": "big", "n": int(L * 1.3) if not real else int(L * 1.1), "ch": "e"}, "sem": "least", "retry": {"kind": "none"}}
        small = {"op": "step", "beh": {"kind": "ret", "v": 1}, "sem": "least", "retry": {"kind": "none"}}
        body = [{"op": "parallel", "branches": [[big]] + [[small] for _ in range(n - 1)],
                 "cfg": {"max_concurrency": 1, "completion": {"min": 1, "tol": n, "pct": None}, "explicit": True}}]
    elif kind == "op_err":
        # the handler fails because a durable operation failed for good: its (SDK-typed) error with a message around
        # the response limit leaves the handler
        d = draw(delta)
        n = max(1, (R * 2) if d is None else R + d)
        body = [{"op": "step", "beh": {"kind": "always_fail", "err": "UserError", "msg": "E" * max(1, n - draw(st.sampled_from([0, 60, 90, 120])))}, "sem": "least", "retry": {"kind": "none"}}]
        if draw(st.booleans()):
            body = [{"op": "child", "body": body}]
    elif kind == "handler_ok":
        d = draw(delta)
        n = max(1, (R * 2) if d is None else R + d)
        uni = draw(st.integers(0, 3)) == 0 and not real
        uni3 = not uni and not real and draw(st.integers(0, 4)) == 0
        if uni3:
            # few characters, many bytes: fits R counted in characters but not in UTF-8 bytes, whatever the escaping
            k = draw(st.sampled_from([R // 3 + 1, R // 2, R - 2, R // 3 - 2]))
            hb = {"return": {"kind": "unicode_size", "n": max(1, k), "ch": draw(st.sampled_from(["\u20ac", "\u4e2d"]))}}
            info["result_len"] = max(1, k) * 6 + 2
            info["multibyte"] = True
        elif uni:
            hb = {"return": {"kind": "unicode_size", "n": max(1, (n - 2) // 6), "ch": "é"}}
            info["result_len"] = max(1, (n - 2) // 6) * 6 + 2
        else:
            hb = {"return": {"kind": "size", "n": max(0, n - 2)}}
            info["result_len"] = max(0, n - 2) + 2
        body = [draw(step)]
    else:
        d = draw(delta)
        n = max(1, (R * 2) if d is None else R + d)
        hb = {"raise": {"cls": draw(st.sampled_from(["UserError", "ValueError"])), "size": max(1, n - draw(st.sampled_from([0, 60, 75, 90])))}}
        body = [draw(step)]
    tail = []
    if kind not in ("handler_ok", "handler_err", "op_err"):
        tail = [{"op": "wait", "secs": 1}]
        if draw(st.booleans()):
            tail.append(draw(step))
            tail.append({"op": "wait", "secs": 1})
    prog = {"body": body + tail}
    if hb:
        prog["handler"] = hb
    crashes = draw(st.lists(st.builds(lambda inv, at, k: {"inv": inv, "at": at, "n": k}, st.integers(0, 3), st.sampled_from(["api_before", "api_after"]), st.integers(0, 6)), max_size=1))
    return {"prog": prog, "limits": {} if real else {"checkpoint": L, "response": R}, "c16": {**info, "kind": kind, "real": real},
            "backend": draw(G.backend_cfgs()), "plan": {"crashes": crashes}, "sched": draw(G.schedules(2)), "line": []}


def nontrivial(run, case):
    b = run.backend
    L = run.limits["checkpoint"]
    R = run.limits["response"]
    near = any(abs(n - L) <= 2 for n in ((run.world or {}).get("sizes") or {}).values())
    rl = case["c16"].get("result_len")
    near = near or (rl is not None and abs(rl - R) <= 2) or bool(case["c16"].get("multibyte"))
    rc_replay = any(e["replay_children"] for e in run.entries)
    if not (near or rc_replay):
        return None
    return [G.shape_of(case["prog"]), case["c16"], sorted(((run.world or {}).get("sizes") or {}).values()), [i.get("outcome") for i in run.invocations]]


def classes(run, case):
    out = ["kind:" + case["c16"]["kind"]]
    if case["c16"]["real"]:
        out.append("true-constants")
    if case["c16"].get("multibyte"):
        out.append("multibyte-result:chars<=R<bytes")
    if any(e["replay_children"] for e in run.entries):
        out.append("replay-children-replay")
    if any((s_.get("cfg") or {}).get("item_serdes") for _, s_ in G.program_paths(case["prog"]) if s_["op"] in ("map", "parallel")):
        out.append("custom-item-serializer")
    if run.backend.closed is not None:
        out.append("execution-result-recorded")
    return out


install(globals(), props=("C16",), cases=cases, nontrivial=nontrivial, classes=classes, extra_monitors=(mon_c16,))
