"""C17 - the context logger is silent while replaying completed work, audible afterwards."""
from __future__ import annotations

from hypothesis import strategies as st

from .. import wfgen as G
from ..simbackend import TERMINAL
from ..values import to_tagged
from ._wf import install

META = {
    "id": "C17",
    "level": "fault_enumeration",
    "engine": "workflow",
    "rule": (
        "Case = sequential program of units (step, retrying step, failing step inside try/except, wait, child context "
        "with its own sequential body, callback pair with code in between, wait_for_callback, invoke, map/parallel block "
        "treated as a unit) with log calls between the units, inside child bodies and inside step functions (through the "
        "step's derived logger), a capturing LoggerInterface installed with set_logger, a suspension after (almost) every "
        "unit so that each prefix of completed work is left behind at some invocation, optional crashes, and every split of "
        "the history between the invocation payload and later pages (including 'only the EXECUTION operation on page 1'). "
        "Histories are pruned (children of completed contexts are not handed back; contexts whose result exceeds the test-side patched "
        "checkpoint limit are re-traversed, their log calls count as completed work). Oracle (log judge), per invocation k "
        "with the set H of operations complete when it began: a log call is emitted iff no operation of H follows it in "
        "program order (both directions: silence before the replay boundary, sound after it, including inside newly "
        "executed steps); a first invocation emits everything; every record carries executionArn and records from step "
        "functions carry operationId/operationName/attempt (+parentId inside contexts). Non-trivial = a resumed invocation "
        "with >=1 log call before and >=1 after the replay boundary; distinct = (program shape, paging, invocation outcomes)."
        " A third of the cases have the external party fail / time out / stop / cancel callbacks and invokes, caught by the workflow: failed operations are completed work too."
    ),
    "assumptions": [
        "judged on pruned histories only: with an unpruned history the children of a short-circuited context are never visited and the logger stays silent - a property of that backend model, recorded as an observation",
        "log calls are placed only where program order is total (not inside concurrent branches)",
    ],
    "budget": {
        "quick": {"shards": 4, "random_cases": 200, "enum_programs": 16, "min_nontrivial": 60},
        "thorough": {"shards": 16, "random_cases": 5000, "enum_programs": 400, "min_nontrivial": 2500},
    },
}

_n = [0]


def _order_key(path: str):
    """Program-order key of a structural path in a sequential program."""
    out = []
    for part in path.replace("~", "/~").replace("#", "/#").split("/")[1:]:
        if part.isdigit():
            out.append((1, int(part)))
        elif part == "t":
            out.append((1, 0))
        elif part == "h":
            out.append((1, 1))
        elif part.startswith("~"):
            out.append((0, 0))
        else:
            out.append((2, 0))
    return tuple(out)


def mon_c17(run, case):
    b = run.backend
    arn = b.arn
    calls_by_inv: dict = {}
    for c in run.log_calls:
        calls_by_inv.setdefault(c["inv"], []).append(c)
    emitted = {}
    for r in run.logs:
        emitted.setdefault((r["inv"], r["msg"]), []).append(r)
    for inv in run.invocations:
        k = inv["inv"]
        start = getattr(b, "inv_start_status", {}).get(k, {})
        H = [b.path_of.get(i) for i, st_ in start.items() if st_ in TERMINAL and b.path_of.get(i)]
        H = [p for p in H if p and p.startswith("root")]
        Hkeys = [_order_key(p) for p in H]
        for c in calls_by_inv.get(k, ()):
            pos = _order_key(c["path"])
            # an operation of H follows the call if its key is greater; operations *inside* the call's own unit do not count
            later = [p for p, kk in zip(H, Hkeys) if kk > pos and not p.startswith(c["path"] + "/") and p != c["path"]]
            if c["in_step"]:
                later = [p for p in later if not p.startswith(c["path"])]
            # a call inside a context that was already complete when the invocation began (its body is re-traversed
            # because only a summary was recorded) belongs to completed work
            inside_done = [p for p in H if c["path"].startswith(p + "/") and not c["in_step"]]
            if inside_done:
                later = later + inside_done
            should_emit = not later
            got = bool(emitted.get((k, c["tag"])))
            if got and not should_emit:
                site = "first-page-only-execution" if (inv.get("n_hist", 0) <= 1 and len(start) > 1) else "in-step" if c["in_step"] else "between-units"
                run.v("C17", "log_emitted_during_replay", site,
                      f"invocation {k}: log {c['tag']} at {c['path']} was emitted although completed operation(s) {later[:3]} follow it (history: {len(start)} ops, first page {inv.get('n_hist')})")
            if should_emit and not got:
                died = inv.get("outcome") in ("crashed",)
                site = "after-raising-replayed-operation" if _raised_before(run, k, c) else ("in-step" if c["in_step"] else "between-units")
                run.v("C17", "log_suppressed_after_replay_boundary", site,
                      f"invocation {k}: log {c['tag']} at {c['path']} was NOT emitted although no completed operation follows it (completed: {H[:6]})")
    for r in run.logs:
        ex = r["extra"]
        if ex.get("executionArn") != arn:
            run.v("C17", "record_without_execution_arn", "extra", f"log {r['msg']}: extra={ex}")
    for c in run.log_calls:
        if not c["in_step"]:
            continue
        for r in emitted.get((c["inv"], c["tag"]), ()):
            ex = r["extra"]
            op = b.ops.get(b.by_path.get(c["path"], ""))
            if op is None:
                continue
            if ex.get("operationId") != op["Id"] or ex.get("operationName") != c["path"] or not isinstance(ex.get("attempt"), int):
                run.v("C17", "step_log_without_operation_identifiers", "extra", f"log {r['msg']} inside {c['path']}: extra={ex}, operation id {op['Id'][:10]}")
            elif (op.get("ParentId") or None) != (ex.get("parentId") or None):
                run.v("C17", "step_log_wrong_parent", "extra", f"log {r['msg']} inside {c['path']}: parentId={ex.get('parentId')}, operation's parent {op.get('ParentId')}")


def _raised_before(run, k, c):
    return any(o["inv"] == k and o["clk"] < c["clk"] and o["out"] == "exc" and o.get("pre") in TERMINAL for o in run.obs)


def _log():
    _n[0] += 1
    return {"op": "log", "tag": f"L{_n[0]}"}


@st.composite
def cases(draw):
    vals = G.tagged_values()
    tagc = [0]

    def log():
        tagc[0] += 1
        return {"op": "log", "tag": f"L{tagc[0]}"}

    def step(with_logs=True):
        s = {"op": "step", "beh": {"kind": "ret", "v": draw(vals)}, "sem": draw(st.sampled_from(["least", "most"])), "retry": {"kind": "none"}}
        if with_logs and draw(st.booleans()):
            tagc[0] += 1
            s["logs"] = [f"L{tagc[0]}"]
        return s

    # how the external party answers callbacks / invokes in this case: with a failure, a timeout, a stop or a cancellation
    # the call raises, the workflow catches the error and carries on - the failed operation is completed work all the same
    ext_oc = draw(st.sampled_from(["success", "success", "failure", "timeout", "stop", "cancel"]))

    def guarded(stmt_):
        if ext_oc == "success":
            return [stmt_]
        return [{"op": "try", "body": stmt_, "catch": ["CallbackError", "CallableRuntimeError", "Exception"], "handler": [log()] if draw(st.booleans()) else []}]

    def unit(depth=0):
        k = draw(st.sampled_from(["step", "step", "retry", "failtry", "wait", "child", "callback", "wfcb", "invoke", "batch"] if depth == 0
                                 else ["step", "step", "wait", "failtry", "callback"]))
        if k == "step":
            return [step()]
        if k == "retry":
            s = step()
            s["beh"] = {"kind": "fail_then_ret", "k": 1, "err": "UserError", "v": s["beh"]["v"]}
            s["retry"] = {"kind": "table", "max": 3, "delays": [1], "nonretry": []}
            return [s]
        if k == "failtry":
            return [{"op": "try", "body": {"op": "step", "beh": {"kind": "always_fail", "err": "UserError", "msg": "nope"}, "sem": "least", "retry": {"kind": "none"}},
                     "catch": ["CallableRuntimeError"], "handler": [log()] if draw(st.booleans()) else []}]
        if k == "wait":
            return [{"op": "wait", "secs": draw(st.integers(1, 3))}]
        if k == "child":
            body = []
            for _ in range(draw(st.integers(1, 3))):
                if draw(st.booleans()):
                    body.append(log())
                body += unit(depth + 1)
            if draw(st.booleans()):
                body.append(log())
            # a third of the child contexts return a result above the (test-side patched) checkpoint limit: recorded with
            # ReplayChildren, their body - log calls included - runs again on replay
            return [{"op": "child", "body": body, **({"pad": 400} if draw(st.integers(0, 2)) == 0 else {})}]
        if k == "callback":
            between = []
            for _ in range(draw(st.integers(0, 3))):
                between.append(draw(st.sampled_from(["log", "log", "step", "wait"])))
            between = [log() if b == "log" else step() if b == "step" else {"op": "wait", "secs": 1} for b in between]
            return guarded({"op": "callback", "between": between})
        if k == "wfcb":
            return guarded({"op": "wfcb"})
        if k == "invoke":
            return guarded({"op": "invoke", "fn": "f", "payload": 1})
        brs = [[step(False)], [step(False)]]
        return [{"op": "parallel", "branches": brs, "cfg": {"completion": {"min": None, "tol": 2, "pct": None}}}]

    body = [log()]
    for _ in range(draw(st.integers(1, 5))):
        body += unit()
        if draw(st.integers(0, 3)) > 0:
            body.append(log())
        if draw(st.integers(0, 2)) > 0:
            body.append({"op": "wait", "secs": 1})
            if draw(st.booleans()):
                body.append(log())
    be = draw(G.backend_cfgs())
    be["prune_children"] = True
    be["first_page"] = draw(st.sampled_from([None, None, 0, 0, 1, 2, 4]))
    crashes = draw(st.lists(st.builds(lambda inv, at, n: {"inv": inv, "at": at, "n": n}, st.integers(0, 5), st.sampled_from(["api_before", "api_after", "user"]), st.integers(0, 5)), max_size=1))
    # the capturing logger is installed with set_logger() from user code, or it IS the default logger the root context
    # is built with (before the handler runs)
    return {"prog": {"body": body}, "limits": {"checkpoint": 300}, "keep_backend": ["prune_children"], "caplog": draw(st.sampled_from([True, True, "default"])), "ext_default": {"after_pending": draw(st.sampled_from([0, 0, 1, 2])), **({"outcome": ext_oc} if ext_oc != "success" else {})}, "backend": be, "plan": {"crashes": crashes}, "sched": [{"mode": "seq"}], "line": []}


def nontrivial(run, case):
    b = run.backend
    ok = False
    for inv in run.invocations[1:]:
        k = inv["inv"]
        calls = [c for c in run.log_calls if c["inv"] == k]
        em = {r["msg"] for r in run.logs if r["inv"] == k}
        if any(c["tag"] in em for c in calls) and any(c["tag"] not in em for c in calls):
            ok = True
    if not ok:
        return None
    return [G.shape_of(case["prog"]), case["backend"].get("first_page"), [i.get("outcome") for i in run.invocations]]


def classes(run, case):
    out = []
    if case["backend"].get("first_page") == 0:
        out.append("first-page-only-execution")
    if any(c["in_step"] for c in run.log_calls):
        out.append("log-inside-step")
    if any(o["out"] == "exc" and o.get("pre") in TERMINAL for o in run.obs):
        out.append("replayed-operation-raised")
    return out


def _crash_after_every_unit(ctx):
    """Every prefix of completed work: run crash-free, then die right after each backend call of the first invocations."""
    from hypothesis import HealthCheck, Phase, given, seed, settings

    from .. import wfcheck as WC

    n_prog = max(1, ctx.budget.get("enum_programs", 12) // max(1, ctx.nshards))
    total = [0]

    @seed(ctx.seed + 29)
    @settings(max_examples=n_prog, database=None, deadline=None, phases=[Phase.generate], suppress_health_check=list(HealthCheck))
    @given(cases())
    def t(base):
        base = {**base, "plan": {"crashes": []}}
        r0 = WC.report_case(ctx, base, PROPS, nontrivial=nontrivial, classes=classes, extra_monitors=(mon_c17,))
        for inv in r0.invocations[:2]:
            for i in range(min(inv.get("api_calls", 0), 10)):
                for at in ("api_after", "api_before"):
                    WC.report_case(ctx, {**base, "plan": {"crashes": [{"inv": inv["inv"], "at": at, "n": i}]}}, PROPS,
                                   nontrivial=nontrivial, classes=classes, extra_monitors=(mon_c17,))
                    total[0] += 1

    t()
    ctx.extra["crash_points_enumerated"] = total[0]


def _directed(ctx):
    """Fixed programs in which a context recorded with ReplayChildren (result above the patched limit) is the LAST completed
    operation of the history an invocation resumes from, and logs after its last inner operation."""
    from .. import wfcheck as WC

    def S(v):
        return {"op": "step", "beh": {"kind": "ret", "v": v}, "sem": "least", "retry": {"kind": "none"}}

    def L(t):
        return {"op": "log", "tag": t}

    retry = {"op": "step", "beh": {"kind": "fail_by_attempt", "k": 1, "err": "UserError", "v": 1}, "sem": "least", "retry": {"kind": "table", "max": 3, "delays": [1], "nonretry": []}}
    progs = [
        [L("D1"), {"op": "child", "body": [L("D2"), S(1), L("D3")], "pad": 400}, retry, L("D4")],
        [L("D1"), {"op": "child", "body": [S(1), {"op": "child", "body": [S(2), L("D2")], "pad": 400}, L("D3")], "pad": 400}, retry, L("D4")],
        [{"op": "child", "body": [L("D1"), S(1), L("D2")], "pad": 400}, L("D3"), {"op": "wait", "secs": 1}, L("D4")],
    ]
    for i, body in enumerate(progs):
        if ctx.nshards > 1 and i % ctx.nshards != ctx.shard % ctx.nshards:
            continue
        for fp in (None, 0, 1):
            for cap in (True, "default"):
                case = {"prog": {"body": body}, "limits": {"checkpoint": 300}, "keep_backend": ["prune_children"], "caplog": cap, "ext_default": {"after_pending": 0},
                        "backend": {"response": "delta", "prune_children": True, "first_page": fp}, "plan": {"crashes": []}, "sched": [{"mode": "seq"}], "line": []}
                WC.report_case(ctx, case, PROPS, nontrivial=nontrivial, classes=lambda r, c: ["directed:replay-children-context-last"] + classes(r, c), extra_monitors=(mon_c17,))


install(globals(), props=("C17",), cases=cases, nontrivial=nontrivial, classes=classes, extra_monitors=(mon_c17,), stages=(_crash_after_every_unit, _directed))
