"""C18 - every invocation ends with exactly one well-formed, correctly classified outcome."""
from __future__ import annotations

import json

from hypothesis import strategies as st

from .. import wfgen as G
from ..simbackend import FAULT_CLASSES
from ..values import to_tagged
from ._wf import install

META = {
    "id": "C18",
    "level": "fault_enumeration",
    "engine": "workflow",
    "rule": (
        "Case = handler behaviour x fault x event. Behaviours: return values (JSON-able, not JSON-able, NaN, None, ASCII and "
        "multi-byte strings sized R+d around the response limit, which is patched down from the test side), exceptions of "
        "builtin, user-defined and every public SDK class (ExecutionError, InvocationError, CallbackError, ValidationError, "
        "StepInterruptedError, CallableRuntimeError, SerDesError, NonDeterministicExecutionError, InvalidStateError, "
        "OrderedLockError, UserlandError, DurableExecutionsError; builtin/user exceptions optionally carrying foreign attributes such as "
        ".data/.stack_trace/.type with non-string values) raised at top level / inside a child context / inside a "
        "step / inside a parallel branch, suspensions; faults: any error class at any backend call (incl. the call that "
        "records a large result, incl. responses the SDK cannot parse; plus an enumeration in which the failing call is in flight for 0.2-0.3 s while a "
        "synchronous record is queued behind it); events: well-formed, missing keys, wrong types, "
        "non-JSON / non-object input payloads. Oracle = independent classifier table: the wrapper returns a dict with "
        "Status SUCCEEDED (+ Result that json.loads and fits the limit in bytes, no Error) | FAILED (+ JSON-serializable Error object "
        "with only the four wire fields, strings / list of strings, or an "
        "accepted EXECUTION record on the large path) | PENDING (neither), or raises - and a raise is accepted only for a "
        "fault the table marks retriable, an InvocationError-family error raised by the handler at top level or in a child "
        "context, or a malformed payload; user exceptions and non-retriable SDK errors must give FAILED, suspension "
        "PENDING; when the wrapper returns or raises, no handler-pool thread (checkpoint batcher) is alive and the "
        "invocation did not hang. Non-trivial = error raised below top level, or a fault hit, or a boundary-size payload, "
        "or a malformed event; distinct = (behaviour, fault, event, outcome)."
    ),
    "assumptions": ["classification table: 4xx other than 429 / invalid token => raise; 429, 5xx, invalid token, unparsable response => FAILED; get-state failures => raise"],
    "budget": {
        "quick": {"shards": 4, "random_cases": 450, "min_nontrivial": 150},
        "thorough": {"shards": 16, "random_cases": 12000, "min_nontrivial": 5000},
    },
}

SDK_EXC = ["ExecutionError", "InvocationError", "CallbackError", "ValidationError", "StepInterruptedError", "CallableRuntimeError", "SerDesError",
           "NonDeterministicExecutionError", "InvalidStateError", "OrderedLockError", "UserlandError", "DurableExecutionsError"]
BUILTIN = ["ValueError", "KeyError", "RuntimeError", "TypeError", "ZeroDivisionError", "AssertionError", "UserError", "OtherUserError"]
INVOCATION_FAMILY = {"InvocationError", "StepInterruptedError"}


def wellformed(out, run, R):
    if not isinstance(out, dict):
        return f"not a dict: {out!r}"
    stt = out.get("Status")
    if stt not in ("SUCCEEDED", "FAILED", "PENDING"):
        return f"Status={stt!r}"
    extra = set(out) - {"Status", "Result", "Error"}
    if extra:
        return f"unexpected keys {sorted(extra)}"
    if stt == "PENDING" and ("Result" in out or "Error" in out):
        return "PENDING with a payload"
    if stt == "SUCCEEDED":
        if "Error" in out:
            return "SUCCEEDED with Error"
        r = out.get("Result")
        if not isinstance(r, str):
            return f"Result is {type(r).__name__}"
        if r == "":
            if run.backend.closed is None:
                return "empty Result without an accepted EXECUTION record"
        else:
            try:
                json.loads(r)
            except Exception as e:  # noqa: BLE001
                return f"Result is not JSON: {e!r}"
            try:
                n = len(r.encode("utf-8"))
            except UnicodeEncodeError:
                return "Result cannot be encoded as UTF-8"
            if n > R:
                return f"Result of {n} bytes exceeds the response limit {R}"
    if stt == "FAILED":
        if "Result" in out:
            return "FAILED with Result"
        e = out.get("Error")
        if e is None:
            if run.backend.closed is None:
                return "FAILED without Error and without an accepted EXECUTION record"
        elif not isinstance(e, dict) or not (e.get("ErrorType") or e.get("ErrorMessage")):
            return f"Error object malformed: {e!r}"
        else:
            for k in ("ErrorType", "ErrorMessage", "ErrorData"):
                if e.get(k) is not None and not isinstance(e[k], str):
                    return f"Error.{k} is {type(e[k]).__name__}, the wire type is string: {e[k]!r}"[:300]
            stt_ = e.get("StackTrace")
            if stt_ is not None and not (isinstance(stt_, list) and all(isinstance(x, str) for x in stt_)):
                return f"Error.StackTrace is not a list of strings: {stt_!r}"[:300]
            if set(e) - {"ErrorType", "ErrorMessage", "ErrorData", "StackTrace"}:
                return f"Error object has unexpected keys {sorted(set(e) - {'ErrorType', 'ErrorMessage', 'ErrorData', 'StackTrace'})}"
            try:
                ser = json.dumps(out)
            except (TypeError, ValueError) as ex:
                return f"FAILED response is not JSON-serializable: {ex!r}"
            if len(ser.encode("utf-8", "surrogatepass")) > R:
                return f"FAILED response of {len(ser)} bytes exceeds the response limit {R}"
    return None


def mon_c18(run, case):
    info = case["c18"]
    R = run.limits["response"]
    b = run.backend
    for inv in run.invocations:
        k = inv["inv"]
        oc = inv.get("outcome")
        if oc in ("deadlock", "time_cap"):
            run.v("C18", "invocation_hangs", oc, f"invocation {k} never produced an outcome: {inv.get('deadlock_info')}")
            continue
        if oc in ("crashed", "step_cap", None):
            continue
        live = [n for n in inv.get("live_at_return", ()) if n.startswith("dex-handler")]
        if live:
            run.v("C18", "checkpoint_thread_alive_after_return", "handler-pool", f"invocation {k}: tasks {live} still alive when the wrapper finished")
        fault = next((a.get("fault") for a in b.api if a["inv"] == k and a.get("fault")), None)
        fault_kind = next((a["kind"] for a in b.api if a["inv"] == k and a.get("fault")), None)
        if oc == "raised":
            cls = inv.get("raised")
            ok = False
            why = []
            if fault is not None:
                exp = "raise" if fault_kind == "get_state" else FAULT_CLASSES.get(fault["class"], (0, 0, 0, "FAILED"))[3]
                if exp == "raise":
                    ok = True
                why.append(f"fault {fault['class']} on {fault_kind} expects {exp}")
            if info.get("event"):
                ok = True
            if info.get("raise") in INVOCATION_FAMILY and cls == info["raise"]:
                ok = True  # an invocation-level error travels up to the wrapper from wherever it was raised
            if not ok:
                run.v("C18", "raised_for_non_retriable", f"{cls}:{info.get('where')}",
                      f"invocation {k} raised {cls}({inv.get('raised_msg')!r}) but nothing warrants a Lambda retry ({'; '.join(why) or 'handler behaviour ' + str(info)})")
            continue
        out = inv.get("output")
        msg = wellformed(out, run, R)
        if msg:
            run.v("C18", "malformed_output", (out or {}).get("Status") if isinstance(out, dict) else "not-dict", f"invocation {k}: {msg}")
            continue
        # classification of handler behaviour (first invocation without faults / malformed events)
        if fault is None and not info.get("event") and k == 0 and not info.get("suspends"):
            r = info.get("raise")
            where = info.get("where")
            if r is not None:
                if r in INVOCATION_FAMILY and where in ("top", "child"):
                    run.v("C18", "invocation_error_not_raised", f"{r}:{where}", f"handler raised {r} at {where} but the wrapper returned {out.get('Status')}")
                elif r not in INVOCATION_FAMILY and where in ("top", "child", "step") and out["Status"] != "FAILED":
                    run.v("C18", "user_error_not_failed", f"{r}:{where}", f"handler raised {r} at {where}; wrapper returned {out}")
            elif info.get("ret") in ("notjson",) and out["Status"] != "FAILED":
                run.v("C18", "unserializable_result_not_failed", "return", f"wrapper returned {out}")
            elif info.get("ret") in ("json", "none", "size", "unicode_size", "nan") and out["Status"] != "SUCCEEDED":
                run.v("C18", "result_not_succeeded", info["ret"], f"wrapper returned {str(out)[:300]}")
        if fault is not None and oc in ("SUCCEEDED", "FAILED", "PENDING"):
            exp = "raise" if fault_kind == "get_state" else FAULT_CLASSES.get(fault["class"], (0, 0, 0, "FAILED"))[3]
            sync_hit = any(h["inv"] == k and h["sync"] and h.get("raised") == "BackgroundThreadError" for h in run.handovers)
            if exp == "raise" and sync_hit and oc == "FAILED":
                run.v("C18", "retriable_error_not_raised", f"{fault['class']}:{fault_kind}", f"invocation {k} returned FAILED for a retriable {fault['class']} failure")
        if info.get("suspends") and fault is None and not info.get("event") and k == 0 and oc != "PENDING" and info.get("raise") is None:
            run.v("C18", "suspension_not_pending", "suspend", f"handler suspended but the wrapper returned {out}")


@st.composite
def cases(draw):
    R = draw(st.sampled_from([600, 1200, 3000]))
    vals = G.tagged_values()
    step = G.steps(vals, allow_fail=False)
    info = {}
    body = []
    hb = {}
    mode = draw(st.sampled_from(["raise", "raise", "raise", "return", "return", "suspend", "plain", "event"]))
    where = None
    if mode == "raise":
        cls = draw(st.sampled_from(SDK_EXC + BUILTIN))
        where = draw(st.sampled_from(["top", "child", "step", "branch"]))
        exc = {"cls": cls, "msg": draw(st.sampled_from(["boom", "", "x" * 50]))}
        if cls in BUILTIN and draw(st.integers(0, 2)) == 0:
            attrs = draw(st.dictionaries(st.sampled_from(["data", "stack_trace", "error_type", "type", "message", "error_data", "errno"]),
                                         st.sampled_from([to_tagged({"field": ["bad"]}), to_tagged(b"\x00raw"), to_tagged(7), to_tagged(["a", "b"]), to_tagged("text"), to_tagged(None)]),
                                         min_size=1, max_size=3))
            exc["attrs"] = attrs
            info["attrs"] = sorted(attrs)
        info.update({"raise": cls, "where": where})
        if where == "top":
            body = [draw(step)] if draw(st.booleans()) else []
            hb["raise"] = exc
        elif where == "child":
            body = [{"op": "child", "body": [draw(step), {"op": "raise", "exc": exc}]}]
        elif where == "step":
            body = [{"op": "step", "beh": {"kind": "raise_sdk", "exc": exc}, "sem": draw(st.sampled_from(["least", "most"])), "retry": {"kind": "none"}}]
        else:
            body = [{"op": "parallel", "branches": [[draw(step)], [{"op": "raise", "exc": exc}]], "cfg": {"completion": {"min": None, "tol": 2, "pct": None}}}]
    elif mode == "return":
        k = draw(st.sampled_from(["json", "none", "notjson", "nan", "size", "size", "unicode_size"]))
        info["ret"] = k
        body = [draw(step)] if draw(st.booleans()) else []
        if k == "json":
            hb["return"] = {"kind": "json", "value": draw(G.json_values)}
        elif k == "none":
            hb["return"] = {"kind": "none"}
        elif k == "notjson":
            hb["return"] = {"kind": "notjson", "what": draw(st.sampled_from(["set", "object"]))}
        elif k == "nan":
            hb["return"] = {"kind": "nan"}
        elif k == "size":
            hb["return"] = {"kind": "size", "n": max(0, R + draw(st.sampled_from([-3, -2, -1, 0, 1, 2, 500, -500])) - 2)}
            info["boundary"] = True
        else:
            hb["return"] = {"kind": "unicode_size", "n": max(1, (R + draw(st.sampled_from([-200, 0, 6, 600]))) // draw(st.sampled_from([2, 6]))), "ch": draw(st.sampled_from(["é", "€", "\U0001F600"]))}
            info["boundary"] = True
    elif mode == "suspend":
        info["suspends"] = True
        body = [draw(step), draw(st.sampled_from([{"op": "wait", "secs": 2}, {"op": "callback", "between": []}, {"op": "invoke", "fn": "f", "payload": 1}]))]
    elif mode == "event":
        body = [draw(step)]
    else:
        body = draw(G.programs(max_stmts=3))["body"]
        info["suspends"] = None
    prog = {"body": body}
    if hb:
        prog["handler"] = hb
    plan = {"crashes": [], "faults": [], "garbage": []}
    fk = draw(st.sampled_from(["none", "none", "fault", "fault", "garbage"]))
    if fk == "fault":
        plan["faults"] = [{"inv": 0, "api": draw(st.integers(0, 4)), "class": draw(st.sampled_from(sorted(FAULT_CLASSES))), "when": draw(st.sampled_from(["before", "after"]))}]
    elif fk == "garbage":
        plan["garbage"] = [{"inv": 0, "api": draw(st.integers(0, 3)), "what": draw(st.sampled_from(["status", "type", "id"]))}]
    case = {"prog": prog, "limits": {"response": R, "checkpoint": draw(st.sampled_from([0, 0, 400])) or None}, "c18": info,
            "backend": draw(G.backend_cfgs()), "plan": plan, "sched": draw(G.schedules(2)), "line": [], "max_raises": 1}
    if mode == "event":
        m = draw(st.sampled_from([
            {"kind": "drop_key", "key": "DurableExecutionArn"}, {"kind": "drop_key", "key": "CheckpointToken"}, {"kind": "not_dict", "value": "text"},
            {"kind": "not_dict", "value": None}, {"kind": "not_dict", "value": [1]}, {"kind": "bad_ops", "value": "zzz"}, {"kind": "bad_ops", "value": [{"Id": "x"}]},
            {"kind": "input", "value": "{bad json"}, {"kind": "input", "value": "   "}, {"kind": "input", "value": "[1, 2]"}, {"kind": "input", "value": "5"}, {"kind": "none_state"},
        ]))
        case["event_mutation"] = m
        info["event"] = m["kind"] if not (m["kind"] == "input" and m["value"] in ("   ", "[1, 2]", "5")) else None
        info["event_mut"] = m
    if case["limits"]["checkpoint"] is None:
        case["limits"].pop("checkpoint")
    return case


def nontrivial(run, case):
    info = case["c18"]
    hit = any(i.get("failed_at") is not None for i in run.invocations)
    if not (info.get("where") in ("child", "step", "branch") or hit or info.get("boundary") or info.get("event_mut")):
        return None
    return [info, case["plan"]["faults"], case["plan"]["garbage"], [i.get("outcome") for i in run.invocations][:3]]


def classes(run, case):
    info = case["c18"]
    out = []
    if info.get("raise"):
        out.append("raise@" + str(info.get("where")))
    if info.get("ret"):
        out.append("return:" + info["ret"])
    if info.get("event_mut"):
        out.append("event-mutated")
    if any(i.get("failed_at") is not None for i in run.invocations):
        out.append("fault-hit")
    out.append("first-outcome:" + str(run.invocations[0].get("outcome")))
    return out


def _inflight_stage(ctx):
    """Fault enumeration with calls in flight: a step body that outlives the batching window (its START is sent alone, the
    call takes 0.2 s) finishes and queues its synchronous SUCCEED behind the call that is about to fail - for every error
    class, lost request and lost response, at top level, in a child context and in a parallel branch."""
    from .. import wfcheck as WC
    from .c03 import _S

    bases = [
        [_S(1, sleep=0.2)],
        [{"op": "child", "body": [_S(1, sleep=0.2)]}],
        [_S(0), _S(1, sleep=0.25), _S(2)],
        [{"op": "parallel", "branches": [[_S(1, sleep=0.2)], [_S(2, sleep=0.25)]], "cfg": {"completion": {"min": None, "tol": 2, "pct": None}}}],
    ]
    total = 0
    for i, body in enumerate(bases):
        if ctx.nshards > 1 and i % ctx.nshards != ctx.shard % ctx.nshards:
            continue
        for lat in (0.2, 0.3):
            base = {"prog": {"body": body}, "limits": {"response": 3000}, "c18": {"suspends": None}, "backend": {"response": "delta", "api_latency": lat},
                    "plan": {"crashes": [], "faults": [], "garbage": []}, "sched": [{"mode": "seq"}], "line": [], "max_raises": 1}
            total += WC.enumerate_faults(ctx, base, PROPS, nontrivial=nontrivial, classes=lambda r, c: ["fault-with-a-call-in-flight"] + classes(r, c),  # noqa: F821
                                         extra_monitors=(mon_c18,), fault_classes=tuple(sorted(FAULT_CLASSES)), max_inv=1, limit=60)
    ctx.extra["fault_points_enumerated"] = total


install(globals(), props=("C18",), cases=cases, nontrivial=nontrivial, classes=classes, extra_monitors=(mon_c18,), stages=(_inflight_stage,))
