"""C19 - ordered lock and counter: FIFO, exclusive, gap-free, never wedged.

Generated: k tasks x per-task scripts over one OrderedLock (or OrderedCounter) x schedules. Schedules are
enumerated exhaustively (primitive granularity) for the 2-task one-op configurations, enumerated up to a
preemption bound for 3-task configurations, and sampled (walk / pct choosers, line-level yield points in the
SDK's threading.py) for bigger ones.
"""
from __future__ import annotations

import json

from .. import detsched as D

D.install()

from hypothesis import HealthCheck, Phase, given, seed, settings  # noqa: E402
from hypothesis import strategies as st  # noqa: E402

from .. import ensure_repo_on_path  # noqa: E402

ensure_repo_on_path()

import aws_durable_execution_sdk_python.threading as T  # noqa: E402
from aws_durable_execution_sdk_python.exceptions import OrderedLockError  # noqa: E402

D.rebind_sdk()

META = {
    "id": "C19",
    "level": "exploration",
    "engine": "detsched",
    "rule": (
        "Scenario = k in 2..4 tasks, each a script of ops (with-lock section, acquire/release pair, counter increment, "
        "at most one section that raises an Exception or a BaseException) on one OrderedLock / OrderedCounter, run "
        "under a deterministic scheduler that owns every thread switch. Schedules: all interleavings at primitive "
        "granularity for the listed 2-task configurations (exhaustive), all schedules with <=2 preemptions for the "
        "listed 3-task configurations, walk/pct-sampled with every source line of threading.py a yield point "
        "otherwise. Oracle: exclusion (<=1 task in a section), FIFO on unambiguous arrivals (A already holds the lock "
        "or is parked inside acquire on a non-mutex primitive when B's acquire starts => A enters first), no deadlock/"
        "time-cap, after a section raised nobody acquires successfully and everybody gets OrderedLockError, counter "
        "hands out exactly 1..n consistent with FIFO. Non-trivial = a run in which >=2 tasks were queued behind a "
        "holder at some instant; distinct = (scripts, hash of the schedule's decision trace)."
    ),
    "assumptions": [
        "interleavings finer than a source line of threading.py are not explored",
        "an arrival is only ordered when the earlier task is observably parked inside acquire (overlapping arrivals may be granted in either order)",
    ],
    "budget": {
        "quick": {"shards": 4, "dfs_configs": 1, "dfs_max_runs": 6000, "bounded_max_runs": 2500, "random_cases": 350, "min_nontrivial": 50},
        "thorough": {"shards": 16, "dfs_configs": 1, "dfs_max_runs": 600000, "bounded_max_runs": 200000, "random_cases": 12000, "min_nontrivial": 500},
    },
}


class Boom(Exception):
    pass


class BaseBoom(BaseException):
    pass


RAISERS = {"exc": Boom, "base": BaseBoom}

# op := ["with", n_yields] | ["pair", n_yields] | ["raise", kind] | ["incr"]


def run_scenario(scn: dict, chooser, *, line_mode=False):
    """Runs one scenario under one schedule; returns (violations, info)."""
    sched = D.Scheduler(chooser, time_cap=50.0, step_cap=50_000)
    sched.line_mode = line_mode
    ev: list = []
    viol: list = []
    hstate: dict = {}
    from collections import defaultdict

    in_cs = defaultdict(int)  # lock index -> tasks inside its critical section
    broken_at = defaultdict(lambda: None)  # lock index -> event index at which a raising holder entered its section
    max_queued = [0]

    def snapshot_S(me, L=0):
        S = []
        for tid, (st_, opi, l_) in hstate.items():
            if tid == me or l_ != L:
                continue
            if st_ == "in_cs":
                S.append((tid, opi))
            elif st_ == "in_acquire":
                t = tasks.get(tid)
                if t is not None and t.state == "blocked" and t.blocked_on not in ("Lock", "RLock", "RLock.restore"):
                    S.append((tid, opi))
        note_queue()
        return S

    entered: set = set()

    def note_queue():
        for L in {l_ for _, _, l_ in hstate.values()}:
            q = sum(1 for tid, (s_, _, l_) in hstate.items() if l_ == L and s_ == "in_acquire" and tid in tasks and tasks[tid].state == "blocked"
                    and tasks[tid].blocked_on not in ("Lock", "RLock"))
            if q > max_queued[0] and any(s_ == "in_cs" and l_ == L for s_, _, l_ in hstate.values()):
                max_queued[0] = q

    def on_enter(me, opi, S, what, L=0):
        for a in S:
            if a not in entered and a not in errored:
                viol.append(("fifo_order", what, f"task {me} op {opi} entered its section before {a}, which was parked in acquire / holding when {me}'s acquire started; events={ev[-12:]}"))
        if broken_at[L] is not None:
            viol.append(("acquired_after_break", what, f"task {me} op {opi} acquired successfully after a holder's section raised; events={ev[-12:]}"))
        entered.add((me, opi))
        in_cs[L] += 1
        if in_cs[L] > 1:
            viol.append(("mutual_exclusion", what if L == 0 else what + ":second-lock", f"{in_cs[L]} tasks inside the critical section of lock {L}; events={ev[-12:]}"))

    errored: set = set()

    def section(me, n):
        note_queue()
        for _ in range(n):
            sched.yield_point("user")
            note_queue()

    def script(me, ops, locks, counter):
        tasks[me] = D.current_task()
        for opi, op in enumerate(ops):
            kind = op[0]
            L = op[2] if len(op) > 2 else 0
            if kind == "incr":
                L = "counter"
            lock = locks[L] if L != "counter" else None
            S = snapshot_S(me, L)
            hstate[me] = ("in_acquire", opi, L)
            ev.append(("call", me, opi, kind))
            try:
                if kind == "with" or kind == "raise":
                    try:
                        with lock:
                            hstate[me] = ("in_cs", opi, L)
                            ev.append(("enter", me, opi))
                            on_enter(me, opi, S, "with", L)
                            try:
                                if kind == "raise":
                                    broken_at[L] = len(ev)
                                    section(me, 1)
                                    raise RAISERS[op[1]]("boom")
                                section(me, op[1])
                            finally:
                                in_cs[L] -= 1
                                ev.append(("leave", me, opi))
                    except (Boom, BaseBoom) as e:
                        if kind != "raise" or type(e) is not RAISERS[op[1]]:
                            viol.append(("wrong_exception_for_holder", "with", repr(e)))
                        ev.append(("raised-own", me, opi))
                    else:
                        if kind == "raise":
                            viol.append(("holder_exception_swallowed", "with", "the raising holder did not see its exception"))
                elif kind == "pair":
                    lock.acquire()
                    hstate[me] = ("in_cs", opi, L)
                    ev.append(("enter", me, opi))
                    on_enter(me, opi, S, "acquire", L)
                    try:
                        section(me, op[1])
                    finally:
                        in_cs[L] -= 1
                        ev.append(("leave", me, opi))
                    lock.release()
                elif kind == "incr":
                    v = counter.increment()
                    ev.append(("value", me, opi, v))
                    values.append((me, opi, v, S))
            except OrderedLockError as e:
                errored.add((me, opi))
                ev.append(("lockerror", me, opi))
                if broken_at[L] is None:
                    viol.append(("spurious_lock_error", kind, f"OrderedLockError without any section having raised: {e}"))
            finally:
                hstate[me] = ("idle", opi, L)

    values: list = []
    tasks: dict = {}

    def root():
        locks = [T.OrderedLock() for _ in range(1 + max([op[2] for s_ in scn["scripts"] for op in s_ if len(op) > 2] or [0]))]
        counter = T.OrderedCounter()
        fns = [(lambda i=i, ops=ops: script(i, ops, locks, counter)) for i, ops in enumerate(scn["scripts"])]
        sched.run_parallel(fns, [f"s{i}" for i in range(len(fns))])

    # tasks[i] must be known before task i runs snapshot of others: MThread.start() assigns _task synchronously
    sched.run(root, watchdog_s=120)
    info = {"outcome": sched.outcome, "steps": sched.step, "decisions": len(sched.trace), "max_queued": max_queued[0], "events": len(ev)}
    if sched.outcome in ("deadlock", "time_cap"):
        viol.append(("wedged", sched.outcome, f"run ended in {sched.outcome}: {sched.deadlock_info}; events={ev[-14:]}"))
    elif sched.outcome == "step_cap":
        info["inconclusive"] = True
    if sched.root_exc is not None and D.is_harness_exc(sched.root_exc):
        raise D.HarnessError(f"harness exception in scenario: {sched.root_exc!r}") from sched.root_exc
    for t_ in sched.tasks:
        if t_.exc is not None and D.is_harness_exc(t_.exc):
            raise D.HarnessError(f"harness exception in task {t_.name}: {t_.exc!r}") from t_.exc
    if sched.root_exc is not None:
        viol.append(("harness_or_sdk_exception", type(sched.root_exc).__name__, repr(sched.root_exc)))
    for t in sched.tasks:
        if t.exc is not None and t is not sched.root:
            viol.append(("uncaught_in_task", type(t.exc).__name__, f"{t.name}: {t.exc!r}"))
    # counter oracle
    if values and sched.outcome == "finished":
        n_incr = sum(1 for s_ in scn["scripts"] for op in s_ if op[0] == "incr")
        got = sorted(v for _, _, v, _ in values)
        if broken_at["counter"] is None:
            if got != list(range(1, n_incr + 1)) or len(values) != n_incr:
                viol.append(("counter_values", "increment", f"{n_incr} increments returned {got}"))
        else:
            if len(set(got)) != len(got):
                viol.append(("counter_values", "increment", f"duplicate values {got}"))
        byop = {(m, o): v for m, o, v, _ in values}
        for m, o, v, S in values:
            for a in S:
                if a in byop and byop[a] > v:
                    viol.append(("counter_order", "increment", f"{a} arrived before {(m, o)} but got {byop[a]} > {v}"))
    seen = set()
    out = []
    for k, s_, d in viol:
        if (k, s_) not in seen:
            seen.add((k, s_))
            out.append({"kind": k, "site": s_, "detail": d})
    info["trace"] = list(sched.trace)
    return out, info


# --------------------------------------------------------------------------- configurations

DFS_CONFIGS = [
    {"scripts": [[["with", 0]], [["with", 0]], [["with", 0]]]},
    {"scripts": [[["raise", "exc"]], [["with", 0]], [["pair", 0]]]},
    {"scripts": [[["with", 0], ["pair", 0]], [["with", 0], ["with", 0]]]},
    {"scripts": [[["incr"], ["incr"]], [["incr"], ["incr"]]]},
    {"scripts": [[["with", 1]], [["with", 0]]]},
    {"scripts": [[["raise", "exc"]], [["with", 0]]]},
    {"scripts": [[["raise", "base"]], [["pair", 0]]]},
    {"scripts": [[["pair", 0]], [["with", 0]]]},
    {"scripts": [[["incr"]], [["incr"]]]},
]
BOUNDED_CONFIGS = [
    # two locks / lock + counter: what a thread went through on one lock must not leak into its next acquire elsewhere
    {"scripts": [[["raise", "exc", 0], ["with", 0, 1]], [["with", 1, 1]], [["with", 0, 0]]]},
    {"scripts": [[["raise", "base", 0], ["incr"]], [["incr"], ["incr"]], [["with", 0, 0]]]},
    {"scripts": [[["with", 1]], [["with", 0]], [["with", 0]]]},
    {"scripts": [[["raise", "exc"]], [["with", 0]], [["with", 0]]]},
    {"scripts": [[["raise", "base"]], [["with", 0]], [["pair", 0]]]},
    {"scripts": [[["incr"]], [["incr"]], [["incr"]]]},
    {"scripts": [[["with", 0], ["with", 0]], [["with", 0], ["with", 0]]]},
    {"scripts": [[["pair", 1]], [["raise", "exc"]], [["with", 0]], [["with", 0]]]},
]

_op = st.one_of(
    st.tuples(st.just("with"), st.integers(0, 2)).map(list),
    st.tuples(st.just("pair"), st.integers(0, 2)).map(list),
)
_scripts_lock = st.lists(st.lists(_op, min_size=1, max_size=3), min_size=2, max_size=4)
_scripts_counter = st.lists(st.lists(st.just(["incr"]), min_size=1, max_size=3), min_size=2, max_size=4)


@st.composite
def scenarios(draw):
    if draw(st.integers(0, 3)) == 0:
        scripts = draw(_scripts_counter)
        scn = {"scripts": scripts}
    else:
        scripts = draw(_scripts_lock)
        if draw(st.booleans()):
            i = draw(st.integers(0, len(scripts) - 1))
            j = draw(st.integers(0, len(scripts[i]) - 1))
            scripts[i][j] = ["raise", draw(st.sampled_from(["exc", "base"]))]
        if draw(st.integers(0, 2)) == 0:
            # a second lock and the counter in the same scripts: per-thread state must not leak from one to the other
            for sc in scripts:
                for op in sc:
                    op.append(draw(st.integers(0, 1)))
                if draw(st.booleans()):
                    sc.insert(draw(st.integers(0, len(sc))), ["incr"])
        scn = {"scripts": scripts}
    mode = draw(st.sampled_from(["walk", "walk", "pct", "pct", "seq"]))
    sd = draw(st.integers(0, 2**32))
    if mode == "walk":
        ch = {"mode": "walk", "seed": sd, "stick": draw(st.sampled_from([0.0, 0.5, 0.8]))}
    elif mode == "pct":
        ch = {"mode": "pct", "seed": sd, "depth": draw(st.integers(1, 3)), "horizon": draw(st.sampled_from([60, 150, 400]))}
    else:
        ch = {"mode": "seq", "preempt": draw(st.lists(st.tuples(st.integers(1, 200), st.integers(0, 3)).map(list), max_size=3))}
    return {"scn": scn, "chooser": ch, "line": draw(st.sampled_from([True, True, False]))}


def _line_on():
    D.enable_line_mode([T])


def _report(ctx, scn, info, vs, schedule_desc, sample_ok=True):
    nt = info["max_queued"] >= 2
    key = [scn["scripts"], hash(tuple(info["trace"])) & 0xFFFFFFFF] if nt else None
    ctx.case(
        nontrivial_key=key,
        classes=[c for c, on in (("queued>=2", nt), ("queued>=1", info["max_queued"] >= 1), ("raise", any(op[0] == "raise" for s_ in scn["scripts"] for op in s_)),
                                 ("counter", any(op[0] == "incr" for s_ in scn["scripts"] for op in s_))) if on],
        sample={"scenario": scn, "schedule": schedule_desc, "steps": info["steps"], "max_queued": info["max_queued"]} if (nt and sample_ok) else None,
    )
    if info.get("inconclusive"):
        ctx.inconclusive += 1
    for v in vs:
        ctx.violation(v["kind"], v["site"], v["detail"], {"scn": scn, "chooser": {"mode": "trace", "choices": info["trace"]}, "line": schedule_desc.get("line", False)})


def shard(ctx) -> None:
    b = ctx.budget
    _line_on()
    # 1. exhaustive DFS (each shard takes the configurations i == shard mod nshards)
    n_dfs = 0
    exhausted = {}
    for i, scn in enumerate(DFS_CONFIGS):
        if i % ctx.nshards != ctx.shard % ctx.nshards and ctx.nshards > 1:
            continue
        runs = 0

        def once(ch, scn=scn):
            return run_scenario(scn, ch)

        for vs, info in D.explore_bounded(once, None, max_runs=b["dfs_max_runs"]):
            runs += 1
            _report(ctx, scn, info, vs, {"mode": "dfs", "n": runs}, sample_ok=runs % 997 == 1)
        exhausted[json.dumps(scn["scripts"])] = {"schedules": runs, "exhaustive": runs < b["dfs_max_runs"]}
        n_dfs += runs
    # 2. preemption-bounded enumeration
    for i, scn in enumerate(BOUNDED_CONFIGS):
        if i % ctx.nshards != ctx.shard % ctx.nshards and ctx.nshards > 1:
            continue
        runs = 0

        def once2(ch, scn=scn):
            return run_scenario(scn, ch)

        for vs, info in D.explore_bounded(once2, 2, max_runs=b["bounded_max_runs"]):
            runs += 1
            _report(ctx, scn, info, vs, {"mode": "bounded<=2", "n": runs}, sample_ok=runs % 499 == 1)
        exhausted["<=2 preemptions " + json.dumps(scn["scripts"])] = {"schedules": runs, "complete": runs < b["bounded_max_runs"]}
    ctx.extra["schedules_enumerated"] = n_dfs
    ctx.extra.setdefault("enumerations", {}).update(exhausted)
    ctx.extra["exhaustive"] = all(v.get("exhaustive", True) for v in exhausted.values())

    # 3. sampled scenarios x schedules, line mode
    @seed(ctx.seed)
    @settings(max_examples=b["random_cases"], database=None, deadline=None, phases=[Phase.generate],
              suppress_health_check=list(HealthCheck), report_multiple_bugs=False)
    @given(scenarios())
    def t(case):
        vs, info = run_scenario(case["scn"], D.make_chooser(case["chooser"]), line_mode=case["line"])
        _report(ctx, case["scn"], info, vs, {**case["chooser"], "line": case["line"]})

    t()


def replay(case: dict) -> list[dict]:
    _line_on()
    vs, _ = run_scenario(case["scn"], D.make_chooser(case["chooser"]), line_mode=case.get("line", False))
    return vs
