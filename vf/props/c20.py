"""C20 - wire model codecs are lossless inverses (pure-data PBT, differential against a reference encoder)."""
from __future__ import annotations

import dataclasses
import datetime as dt
import json
import random
from typing import Any

from hypothesis import HealthCheck, Phase, find, given, seed, settings
from hypothesis import strategies as st
from hypothesis.errors import NoSuchExample

from .. import ensure_repo_on_path

ensure_repo_on_path()

from aws_durable_execution_sdk_python import execution as X  # noqa: E402
from aws_durable_execution_sdk_python import lambda_service as L  # noqa: E402
from aws_durable_execution_sdk_python.identifier import OperationIdentifier  # noqa: E402

META = {
    "id": "C20",
    "level": "exploration",
    "engine": "pure",
    "rule": (
        "Hypothesis builds every wire model (ErrorObject, all *Options/*Details, OperationUpdate raw and through every "
        "factory, Operation over every type x status x sub-type x details combination, InitialExecutionState, "
        "DurableExecutionInvocationInput/Output, CheckpointOutput/StateOutput wire dicts) with optional fields absent/"
        "empty/present and timestamps 1971-2100 (microsecond and exact-millisecond). Oracles: from_dict(to_dict(x)) and "
        "from_json_dict(json(to_json_dict(x))) equal x modulo ms truncation and empty-optional-string==absent; "
        "differential: to_dict(x) equals an independent reference encoder written from the protocol field names, and "
        "from_dict(reference(x)) equals x; factory-made updates carry every option on the wire; every decoder is applied twice "
        "to the very same dictionary object: it leaves it unchanged and answers the same; an eighth of the timestamp/"
        "operation/input cases run once more with the process time zone set to UTC+9, US Eastern (DST) and UTC+5:45. Non-trivial = object with "
        ">=1 details/options sub-structure and >=1 optional field present; distinct = (class, set of present fields)."
    ),
    "assumptions": [
        "timestamps are timezone-aware and lie in 1971-2100 (0 ms is falsy in from_json_dict; no service emits it)",
        "error objects in the strict half carry >=1 field (an all-empty error object is not representable on the wire and is == absent)",
        "the reference encoder (vf/props/c20.py ref_*) is the trusted reading of the protocol field names quoted in lambda_service.py",
    ],
    "budget": {
        "quick": {"shards": 4, "ops": 1200, "updates": 900, "inputs": 250, "ts": 3000, "min_nontrivial": 150},
        "thorough": {"shards": 16, "ops": 15000, "updates": 10000, "inputs": 2500, "ts": 60000, "min_nontrivial": 1500},
    },
}

# --------------------------------------------------------------------------- strategies

opt_text = st.one_of(st.none(), st.just(""), st.text(min_size=1, max_size=10))
text1 = st.text(min_size=1, max_size=10)
UTC = dt.timezone.utc
_EPOCH = dt.datetime(1970, 1, 1, tzinfo=UTC)


def _mk_ts(us: int, off_min: int) -> dt.datetime:
    return (_EPOCH + dt.timedelta(microseconds=us)).astimezone(dt.timezone(dt.timedelta(minutes=off_min)))


_us = st.one_of(
    st.integers(365 * 86400 * 10**6, 130 * 365 * 86400 * 10**6),  # any microsecond 1971..2100
    st.integers(365 * 86400 * 10**3, 130 * 365 * 86400 * 10**3).map(lambda ms: ms * 1000),  # exact ms
    st.integers(1_600_000_000, 1_900_000_000).map(lambda s: s * 10**6),  # exact seconds
)
timestamps = st.builds(_mk_ts, _us, st.sampled_from([0, 0, 0, 60, -480, 330, 765]))
opt_ts = st.one_of(st.none(), timestamps)

errors_strict = st.builds(
    L.ErrorObject,
    message=opt_text,
    type=opt_text,
    data=opt_text,
    stack_trace=st.one_of(st.none(), st.lists(st.text(max_size=5), max_size=3)),
).filter(lambda e: any(x is not None for x in (e.message, e.type, e.data, e.stack_trace)))
errors_any = st.one_of(errors_strict, st.just(L.ErrorObject(None, None, None, None)))
opt_error = st.one_of(st.none(), errors_strict, errors_strict, errors_any)

step_options = st.builds(L.StepOptions, st.integers(0, 10**6))
wait_options = st.builds(L.WaitOptions, st.integers(0, 31622400))
callback_options = st.builds(L.CallbackOptions, st.integers(0, 10**5), st.integers(0, 10**5))
invoke_options = st.builds(L.ChainedInvokeOptions, text1, opt_text)
context_options = st.builds(L.ContextOptions, st.booleans())

raw_updates = st.builds(
    L.OperationUpdate,
    operation_id=text1,
    operation_type=st.sampled_from(list(L.OperationType)),
    action=st.sampled_from(list(L.OperationAction)),
    parent_id=opt_text,
    name=opt_text,
    sub_type=st.one_of(st.none(), st.sampled_from(list(L.OperationSubType))),
    payload=opt_text,
    error=opt_error,
    context_options=st.one_of(st.none(), context_options),
    step_options=st.one_of(st.none(), step_options),
    wait_options=st.one_of(st.none(), wait_options),
    callback_options=st.one_of(st.none(), callback_options),
    chained_invoke_options=st.one_of(st.none(), invoke_options),
)

identifiers = st.builds(OperationIdentifier, text1, opt_text, opt_text)
_sub = st.sampled_from(list(L.OperationSubType))

#: (factory name, strategy of kwargs)
FACTORIES = {
    "create_callback": st.fixed_dictionaries({"identifier": identifiers, "callback_options": callback_options}),
    "create_context_start": st.fixed_dictionaries({"identifier": identifiers, "sub_type": _sub}),
    "create_context_succeed": st.fixed_dictionaries(
        {"identifier": identifiers, "payload": st.text(max_size=10), "sub_type": _sub, "context_options": st.one_of(st.none(), context_options)}
    ),
    "create_context_fail": st.fixed_dictionaries({"identifier": identifiers, "error": errors_strict, "sub_type": _sub}),
    "create_execution_succeed": st.fixed_dictionaries({"payload": st.text(max_size=10)}),
    "create_execution_fail": st.fixed_dictionaries({"error": errors_strict}),
    "create_step_succeed": st.fixed_dictionaries({"identifier": identifiers, "payload": st.text(max_size=10)}),
    "create_step_fail": st.fixed_dictionaries({"identifier": identifiers, "error": errors_strict}),
    "create_step_start": st.fixed_dictionaries({"identifier": identifiers}),
    "create_step_retry": st.fixed_dictionaries(
        {"identifier": identifiers, "error": errors_strict, "next_attempt_delay_seconds": st.integers(0, 10**6)}
    ),
    "create_invoke_start": st.fixed_dictionaries(
        {"identifier": identifiers, "payload": st.text(max_size=10), "chained_invoke_options": invoke_options}
    ),
    "create_wait_for_condition_start": st.fixed_dictionaries({"identifier": identifiers}),
    "create_wait_for_condition_succeed": st.fixed_dictionaries({"identifier": identifiers, "payload": st.text(max_size=10)}),
    "create_wait_for_condition_retry": st.fixed_dictionaries(
        {"identifier": identifiers, "payload": st.text(max_size=10), "next_attempt_delay_seconds": st.integers(0, 10**6)}
    ),
    "create_wait_for_condition_fail": st.fixed_dictionaries({"identifier": identifiers, "error": errors_strict}),
    "create_wait_start": st.fixed_dictionaries({"identifier": identifiers, "wait_options": wait_options}),
}
factory_calls = st.sampled_from(sorted(FACTORIES)).flatmap(lambda n: FACTORIES[n].map(lambda kw: (n, kw)))

#: what each factory must put on the wire (type, action, and which kwargs are "options the operation was created with")
FACTORY_EXPECT = {
    "create_callback": ("CALLBACK", "START"),
    "create_context_start": ("CONTEXT", "START"),
    "create_context_succeed": ("CONTEXT", "SUCCEED"),
    "create_context_fail": ("CONTEXT", "FAIL"),
    "create_execution_succeed": ("EXECUTION", "SUCCEED"),
    "create_execution_fail": ("EXECUTION", "FAIL"),
    "create_step_succeed": ("STEP", "SUCCEED"),
    "create_step_fail": ("STEP", "FAIL"),
    "create_step_start": ("STEP", "START"),
    "create_step_retry": ("STEP", "RETRY"),
    "create_invoke_start": ("CHAINED_INVOKE", "START"),
    "create_wait_for_condition_start": ("STEP", "START"),
    "create_wait_for_condition_succeed": ("STEP", "SUCCEED"),
    "create_wait_for_condition_retry": ("STEP", "RETRY"),
    "create_wait_for_condition_fail": ("STEP", "FAIL"),
    "create_wait_start": ("WAIT", "START"),
}

execution_details = st.builds(L.ExecutionDetails, opt_text)
context_details = st.builds(L.ContextDetails, st.booleans(), opt_text, opt_error)
step_details = st.builds(L.StepDetails, st.integers(0, 1000), opt_ts, opt_text, opt_error)
wait_details = st.builds(L.WaitDetails, opt_ts)
callback_details = st.builds(L.CallbackDetails, st.text(max_size=10), opt_text, opt_error)
invoke_details = st.builds(L.ChainedInvokeDetails, opt_text, opt_error)


def _opt(s):
    return st.one_of(st.none(), s)


operations = st.builds(
    L.Operation,
    operation_id=text1,
    operation_type=st.sampled_from(list(L.OperationType)),
    status=st.sampled_from(list(L.OperationStatus)),
    parent_id=opt_text,
    name=opt_text,
    start_timestamp=opt_ts,
    end_timestamp=opt_ts,
    sub_type=st.one_of(st.none(), st.sampled_from(list(L.OperationSubType))),
    execution_details=_opt(execution_details),
    context_details=_opt(context_details),
    step_details=_opt(step_details),
    wait_details=_opt(wait_details),
    callback_details=_opt(callback_details),
    chained_invoke_details=_opt(invoke_details),
)

initial_states = st.builds(X.InitialExecutionState, st.lists(operations, max_size=3), st.one_of(st.just(""), text1))
invocation_inputs = st.builds(X.DurableExecutionInvocationInput, text1, st.text(max_size=10), initial_states)
invocation_outputs = st.builds(
    X.DurableExecutionInvocationOutput,
    st.sampled_from(list(X.InvocationStatus)),
    st.one_of(st.none(), st.text(max_size=10)),
    opt_error,
)

# --------------------------------------------------------------------------- reference encoder


def _put(d: dict, k: str, v: Any) -> None:
    """Optional strings: the wire omits absent/empty ones."""
    if v is not None and v != "":
        d[k] = v


def ref_error(e) -> dict:
    d: dict = {}
    for k, v in (("ErrorMessage", e.message), ("ErrorType", e.type), ("ErrorData", e.data), ("StackTrace", e.stack_trace)):
        if v is not None:
            d[k] = v
    return d


def ref_update(u) -> dict:
    d: dict = {"Id": u.operation_id, "Type": u.operation_type.value, "Action": u.action.value}
    _put(d, "ParentId", u.parent_id)
    _put(d, "Name", u.name)
    if u.sub_type is not None:
        d["SubType"] = u.sub_type.value
    _put(d, "Payload", u.payload)
    if u.error is not None and ref_error(u.error):
        d["Error"] = ref_error(u.error)
    if u.context_options is not None:
        d["ContextOptions"] = {"ReplayChildren": u.context_options.replay_children}
    if u.step_options is not None:
        d["StepOptions"] = {"NextAttemptDelaySeconds": u.step_options.next_attempt_delay_seconds}
    if u.wait_options is not None:
        d["WaitOptions"] = {"WaitSeconds": u.wait_options.wait_seconds}
    if u.callback_options is not None:
        d["CallbackOptions"] = {
            "TimeoutSeconds": u.callback_options.timeout_seconds,
            "HeartbeatTimeoutSeconds": u.callback_options.heartbeat_timeout_seconds,
        }
    if u.chained_invoke_options is not None:
        o = {"FunctionName": u.chained_invoke_options.function_name}
        _put(o, "TenantId", u.chained_invoke_options.tenant_id)
        d["ChainedInvokeOptions"] = o
    return d


def _ms(t: dt.datetime) -> int:
    return (t - _EPOCH) // dt.timedelta(milliseconds=1)


def ref_operation(op, *, json_form: bool = False) -> dict:
    ts = _ms if json_form else (lambda t: t)
    d: dict = {"Id": op.operation_id, "Type": op.operation_type.value, "Status": op.status.value}
    _put(d, "ParentId", op.parent_id)
    _put(d, "Name", op.name)
    if op.start_timestamp is not None:
        d["StartTimestamp"] = ts(op.start_timestamp)
    if op.end_timestamp is not None:
        d["EndTimestamp"] = ts(op.end_timestamp)
    if op.sub_type is not None:
        d["SubType"] = op.sub_type.value
    if op.execution_details is not None:
        e: dict = {}
        _put(e, "InputPayload", op.execution_details.input_payload)
        d["ExecutionDetails"] = e
    if op.context_details is not None:
        c: dict = {}
        if op.context_details.replay_children:  # absent == false
            c["ReplayChildren"] = True
        _put(c, "Result", op.context_details.result)
        if op.context_details.error is not None and ref_error(op.context_details.error):
            c["Error"] = ref_error(op.context_details.error)
        d["ContextDetails"] = c
    if op.step_details is not None:
        s: dict = {"Attempt": op.step_details.attempt}
        if op.step_details.next_attempt_timestamp is not None:
            s["NextAttemptTimestamp"] = ts(op.step_details.next_attempt_timestamp)
        _put(s, "Result", op.step_details.result)
        if op.step_details.error is not None and ref_error(op.step_details.error):
            s["Error"] = ref_error(op.step_details.error)
        d["StepDetails"] = s
    if op.wait_details is not None:
        w: dict = {}
        if op.wait_details.scheduled_end_timestamp is not None:
            w["ScheduledEndTimestamp"] = ts(op.wait_details.scheduled_end_timestamp)
        d["WaitDetails"] = w
    if op.callback_details is not None:
        cb: dict = {"CallbackId": op.callback_details.callback_id}
        _put(cb, "Result", op.callback_details.result)
        if op.callback_details.error is not None and ref_error(op.callback_details.error):
            cb["Error"] = ref_error(op.callback_details.error)
        d["CallbackDetails"] = cb
    if op.chained_invoke_details is not None:
        ci: dict = {}
        _put(ci, "Result", op.chained_invoke_details.result)
        if op.chained_invoke_details.error is not None and ref_error(op.chained_invoke_details.error):
            ci["Error"] = ref_error(op.chained_invoke_details.error)
        d["ChainedInvokeDetails"] = ci
    return d


# --------------------------------------------------------------------------- normal form + diff


def norm(x: Any) -> Any:
    """The property's exemptions: empty optional string == absent; a sub-structure all of whose
    fields are absent == absent."""
    if isinstance(x, L.ErrorObject):
        e = L.ErrorObject(x.message, x.type, x.data, x.stack_trace)
        if all(v is None for v in (e.message, e.type, e.data, e.stack_trace)):
            return None
        return e
    if isinstance(x, L.WaitDetails):
        return None if x.scheduled_end_timestamp is None else x
    if isinstance(x, L.ChainedInvokeDetails):
        r = L.ChainedInvokeDetails(x.result or None, norm(x.error))
        return None if (r.result is None and r.error is None) else r
    if isinstance(x, L.ExecutionDetails):
        return L.ExecutionDetails(x.input_payload) if x.input_payload else None
    if isinstance(x, L.ContextDetails):
        r = L.ContextDetails(x.replay_children, x.result or None, norm(x.error))
        return None if (not r.replay_children and r.result is None and r.error is None) else r
    if isinstance(x, L.StepDetails):
        return L.StepDetails(x.attempt, x.next_attempt_timestamp, x.result or None, norm(x.error))
    if isinstance(x, L.CallbackDetails):
        return L.CallbackDetails(x.callback_id, x.result or None, norm(x.error))
    if isinstance(x, L.ChainedInvokeOptions):
        return L.ChainedInvokeOptions(x.function_name, x.tenant_id or None)
    if isinstance(x, L.Operation):
        return L.Operation(
            x.operation_id, x.operation_type, x.status, x.parent_id or None, x.name or None, x.start_timestamp,
            x.end_timestamp, x.sub_type, norm(x.execution_details), norm(x.context_details), norm(x.step_details),
            norm(x.wait_details), norm(x.callback_details), norm(x.chained_invoke_details),
        )
    if isinstance(x, L.OperationUpdate):
        return L.OperationUpdate(
            x.operation_id, x.operation_type, x.action, x.parent_id or None, x.name or None, x.sub_type,
            x.payload or None, norm(x.error), x.context_options, x.step_options, x.wait_options, x.callback_options,
            norm(x.chained_invoke_options),
        )
    if isinstance(x, X.InitialExecutionState):
        return X.InitialExecutionState([norm(o) for o in x.operations], x.next_marker)
    if isinstance(x, X.DurableExecutionInvocationInput):
        return X.DurableExecutionInvocationInput(x.durable_execution_arn, x.checkpoint_token, norm(x.initial_execution_state))
    if isinstance(x, X.DurableExecutionInvocationOutput):
        return X.DurableExecutionInvocationOutput(x.status, x.result, norm(x.error))
    if isinstance(x, list):
        return [norm(v) for v in x]
    return x


def _exec_details_equiv(a, b):
    # ExecutionDetails(None) == absent? from_dict({"InputPayload": None}) keeps the structure; both forms accepted
    return (a is None and isinstance(b, L.ExecutionDetails) and b.input_payload is None) or (
        b is None and isinstance(a, L.ExecutionDetails) and a.input_payload is None
    )


def diff(a: Any, b: Any, path: str = "", ms: bool = False) -> str | None:
    """First differing field path between expected a and actual b (None if equal), both taken in the
    property's normal form (see norm). ms=True: datetimes compare with millisecond truncation:
    b in (a-1ms, a], and b == a when a is ms-exact."""
    return _diff(norm(a), norm(b), path, ms)


def _diff(a: Any, b: Any, path: str = "", ms: bool = False) -> str | None:
    if isinstance(a, dt.datetime) and isinstance(b, dt.datetime):
        if not ms:
            return None if a == b else path + "[timestamp]"
        if a.microsecond % 1000 == 0:
            return None if a == b else path + "[timestamp-exact-ms]"
        return None if dt.timedelta(0) <= a - b < dt.timedelta(milliseconds=1) else path + "[timestamp]"
    if _exec_details_equiv(a, b):
        return None
    if type(a) is not type(b):
        return f"{path}<{type(a).__name__}->{type(b).__name__}>"
    if dataclasses.is_dataclass(a) and not isinstance(a, type):
        for f in dataclasses.fields(a):
            r = _diff(getattr(a, f.name), getattr(b, f.name), f"{path}.{f.name}" if path else f.name, ms)
            if r:
                return r
        return None
    if isinstance(a, list):
        if len(a) != len(b):
            return path + "[len]"
        for i, (x, y) in enumerate(zip(a, b)):
            r = _diff(x, y, f"{path}[]", ms)
            if r:
                return r
        return None
    return None if a == b else path


def dict_diff(exp: Any, act: Any, path: str = "") -> str | None:
    """Differential of wire dicts, ignoring None/''-valued entries and empty sub-dicts on either side."""

    def clean(d):
        if isinstance(d, dict):
            out = {}
            for k, v in d.items():
                v = clean(v)
                if v is None or v == "" or v == {}:
                    continue
                out[k] = v
            return out
        if isinstance(d, list):
            return [clean(x) for x in d]
        return d

    e, a = clean(exp), clean(act)

    def walk(x, y, p):
        if isinstance(x, dict) and isinstance(y, dict):
            for k in sorted(set(x) | set(y)):
                if k not in y:
                    return f"{p}.{k}(missing)" if p else f"{k}(missing)"
                if k not in x:
                    return f"{p}.{k}(unexpected)" if p else f"{k}(unexpected)"
                r = walk(x[k], y[k], f"{p}.{k}" if p else k)
                if r:
                    return r
            return None
        if type(x) is not type(y):
            return f"{p}<{type(x).__name__}->{type(y).__name__}>"
        if isinstance(x, list):
            if len(x) != len(y):
                return p + "[len]"
            for i, j in zip(x, y):
                r = walk(i, j, p + "[]")
                if r:
                    return r
            return None
        return None if x == y else p

    return walk(e, a, path)


# --------------------------------------------------------------------------- oracles


def _v(kind, site, detail):
    return {"kind": kind, "site": site, "detail": detail}


def _guard(kind, fn):
    try:
        return fn(), None
    except Exception as e:  # noqa: BLE001
        return None, _v(kind + "_raised", type(e).__name__, repr(e))


def _decode(kind, decode, src, out):
    """Decode `src` twice from the very same dictionary object: a decoder is a function of the wire value - it must
    leave its input alone and give the same answer again (the SDK decodes a checkpoint response it may log or
    decode again). Returns the first result (or None); appends findings to `out`."""
    import copy

    snap = copy.deepcopy(src)
    back, err = _guard(kind, lambda: decode(src))
    if err:
        out.append(err)
        return None
    try:
        same = src == snap
    except Exception:  # noqa: BLE001
        same = False
    if not same:
        out.append(_v("decoder_mutates_its_input", kind, f"before={snap!r}\nafter={src!r}"[:1500]))
    back2, err2 = _guard(kind + "[second decode of the same dictionary]", lambda: decode(src))
    if err2:
        out.append(err2)
    elif back2 != back:
        out.append(_v("second_decode_differs", kind, f"first={back!r}\nsecond={back2!r}"[:1500]))
    return back


def check_operation(op) -> list[dict]:
    out = []
    n = norm(op)
    wire, err = _guard("Operation.to_dict", op.to_dict)
    if err:
        return [err]
    ref = ref_operation(op)
    d = dict_diff(ref, wire)
    if d:
        out.append(_v("wire_differs_from_reference", "Operation.to_dict:" + d, f"op={op!r}\nwire={wire!r}\nref={ref!r}"))
    back = _decode("Operation.from_dict", L.Operation.from_dict, wire, out)
    if back is not None:
        d = diff(n, back)
        if d:
            out.append(_v("roundtrip_mismatch", "Operation.dict:" + d, f"in={n!r}\nout={back!r}\nwire={wire!r}"))
    back, err = _guard("Operation.from_dict(ref)", lambda: L.Operation.from_dict(ref_operation(op)))
    if err:
        out.append(err)
    else:
        d = diff(n, back)
        if d:
            out.append(_v("decode_of_reference_mismatch", "Operation.from_dict:" + d, f"in={n!r}\nout={back!r}\nref={ref!r}"))
    # JSON form
    jwire, err = _guard("Operation.to_json_dict", lambda: json.loads(json.dumps(op.to_json_dict())))
    if err:
        out.append(err)
    else:
        jref = ref_operation(op, json_form=True)
        d = dict_diff(jref, jwire)
        if d:
            out.append(_v("wire_differs_from_reference", "Operation.to_json_dict:" + d, f"op={op!r}\nwire={jwire!r}\nref={jref!r}"))
        back = _decode("Operation.from_json_dict", L.Operation.from_json_dict, jwire, out)
        if back is not None:
            d = diff(n, back, ms=True)
            if d:
                out.append(_v("roundtrip_mismatch", "Operation.json:" + d, f"in={n!r}\nout={back!r}\nwire={jwire!r}"))
    back, err = _guard("Operation.from_json_dict(ref)", lambda: L.Operation.from_json_dict(ref_operation(op, json_form=True)))
    if err:
        out.append(err)
    else:
        d = diff(n, back, ms=True)
        if d:
            out.append(_v("decode_of_reference_mismatch", "Operation.from_json_dict:" + d, f"in={n!r}\nout={back!r}"))
    return out


def check_update(u) -> list[dict]:
    out = []
    n = norm(u)
    wire, err = _guard("OperationUpdate.to_dict", u.to_dict)
    if err:
        return [err]
    ref = ref_update(u)
    d = dict_diff(ref, wire)
    if d:
        out.append(_v("wire_differs_from_reference", "OperationUpdate.to_dict:" + d, f"u={u!r}\nwire={wire!r}\nref={ref!r}"))
    try:
        json.dumps(wire)
    except Exception as e:  # noqa: BLE001
        out.append(_v("wire_not_json", "OperationUpdate.to_dict", repr(e)))
    for label, src in (("dict", wire), ("from_dict", ref)):
        back, err = _guard(f"OperationUpdate.from_dict[{label}]", lambda s=src: L.OperationUpdate.from_dict(s))
        if err:
            out.append(err)
            continue
        d = diff(n, back)
        if d:
            kind = "roundtrip_mismatch" if label == "dict" else "decode_of_reference_mismatch"
            out.append(_v(kind, f"OperationUpdate.{label}:" + d, f"in={n!r}\nout={back!r}\nwire={src!r}"))
    return out


def check_factory(name: str, kw: dict) -> list[dict]:
    out = []
    u, err = _guard(name, lambda: getattr(L.OperationUpdate, name)(**kw))
    if err:
        return [err]
    wire, err = _guard(name + ".to_dict", u.to_dict)
    if err:
        return [err]
    exp_type, exp_action = FACTORY_EXPECT[name]
    exp: dict = {"Type": exp_type, "Action": exp_action}
    ident = kw.get("identifier")
    if ident is not None:
        exp["Id"] = ident.operation_id
        _put(exp, "ParentId", ident.parent_id)
        _put(exp, "Name", ident.name)
    if "payload" in kw:
        _put(exp, "Payload", kw["payload"])
    if "error" in kw:
        exp["Error"] = ref_error(kw["error"])
    if "sub_type" in kw:
        exp["SubType"] = kw["sub_type"].value
    if kw.get("context_options") is not None:
        exp["ContextOptions"] = {"ReplayChildren": kw["context_options"].replay_children}
    if "next_attempt_delay_seconds" in kw:
        exp["StepOptions"] = {"NextAttemptDelaySeconds": kw["next_attempt_delay_seconds"]}
    if "wait_options" in kw:
        exp["WaitOptions"] = {"WaitSeconds": kw["wait_options"].wait_seconds}
    if "callback_options" in kw:
        exp["CallbackOptions"] = {
            "TimeoutSeconds": kw["callback_options"].timeout_seconds,
            "HeartbeatTimeoutSeconds": kw["callback_options"].heartbeat_timeout_seconds,
        }
    if "chained_invoke_options" in kw:
        o = {"FunctionName": kw["chained_invoke_options"].function_name}
        _put(o, "TenantId", kw["chained_invoke_options"].tenant_id)
        exp["ChainedInvokeOptions"] = o
    # every expected entry must be on the wire with that value (extra keys such as SubType defaults are allowed)
    def sub(e, a, p):
        if isinstance(e, dict):
            if not isinstance(a, dict):
                return p + "(missing)"
            for k, v in e.items():
                if v in (None, "", {}):
                    continue
                if k not in a:
                    return f"{p}.{k}(missing)"
                r = sub(v, a[k], f"{p}.{k}")
                if r:
                    return r
            return None
        return None if e == a else p

    d = sub(exp, wire, name)
    if d:
        out.append(_v("factory_option_not_on_wire", d, f"{name}({kw!r}) -> {wire!r}"))
    if ident is None and not str(wire.get("Id", "")).startswith("execution-result"):
        out.append(_v("factory_option_not_on_wire", name + ".Id", repr(wire)))
    out.extend(check_update(u))
    return out


def check_input(inp) -> list[dict]:
    out = []
    n = norm(inp)
    wire, err = _guard("InvocationInput.to_dict", inp.to_dict)
    if err:
        return [err]
    ref = {
        "DurableExecutionArn": inp.durable_execution_arn,
        "CheckpointToken": inp.checkpoint_token,
        "InitialExecutionState": {
            "Operations": [ref_operation(o) for o in inp.initial_execution_state.operations],
            "NextMarker": inp.initial_execution_state.next_marker,
        },
    }
    d = dict_diff(ref, wire)
    if d:
        out.append(_v("wire_differs_from_reference", "InvocationInput.to_dict:" + d, f"wire={wire!r}\nref={ref!r}"))
    for label, src in (("dict", wire), ("from_dict", ref)):
        back = _decode(f"InvocationInput.from_dict[{label}]", X.DurableExecutionInvocationInput.from_dict, src, out)
        if back is None:
            continue
        d = diff(n, back)
        if d:
            kind = "roundtrip_mismatch" if label == "dict" else "decode_of_reference_mismatch"
            out.append(_v(kind, f"InvocationInput.{label}:" + d, f"in={n!r}\nout={back!r}"))
    jwire, err = _guard("InvocationInput.to_json_dict", lambda: json.loads(json.dumps(inp.to_json_dict())))
    if err:
        out.append(err)
    else:
        back = _decode("InvocationInput.from_json_dict", X.DurableExecutionInvocationInput.from_json_dict, jwire, out)
        if back is not None:
            d = diff(n, back, ms=True)
            if d:
                out.append(_v("roundtrip_mismatch", "InvocationInput.json:" + d, f"in={n!r}\nout={back!r}"))
    # the service's response structures decode the same operations
    ops = inp.initial_execution_state.operations
    marker = inp.initial_execution_state.next_marker or None
    resp = {"CheckpointToken": inp.checkpoint_token, "NewExecutionState": {"Operations": [ref_operation(o) for o in ops], "NextMarker": marker}}
    co, err = _guard("CheckpointOutput.from_dict", lambda: L.CheckpointOutput.from_dict(resp))
    if err:
        out.append(err)
    else:
        d = diff([norm(o) for o in ops], co.new_execution_state.operations, "CheckpointOutput.operations") or (
            None if co.checkpoint_token == inp.checkpoint_token else "CheckpointOutput.checkpoint_token"
        ) or (None if (co.new_execution_state.next_marker or None) == marker else "CheckpointOutput.next_marker")
        if d:
            out.append(_v("decode_of_reference_mismatch", d, f"resp={resp!r}\nout={co!r}"))
    so, err = _guard("StateOutput.from_dict", lambda: L.StateOutput.from_dict(resp["NewExecutionState"]))
    if err:
        out.append(err)
    else:
        d = diff([norm(o) for o in ops], so.operations, "StateOutput.operations") or (
            None if (so.next_marker or None) == marker else "StateOutput.next_marker"
        )
        if d:
            out.append(_v("decode_of_reference_mismatch", d, f"out={so!r}"))
    return out


def check_output(o) -> list[dict]:
    out = []
    n = norm(o)
    wire, err = _guard("InvocationOutput.to_dict", o.to_dict)
    if err:
        return [err]
    ref: dict = {"Status": o.status.value}
    if o.result is not None:
        ref["Result"] = o.result
    if o.error is not None and ref_error(o.error):
        ref["Error"] = ref_error(o.error)
    d = dict_diff(ref, wire)
    if d:
        out.append(_v("wire_differs_from_reference", "InvocationOutput.to_dict:" + d, f"wire={wire!r} ref={ref!r}"))
    if o.result == "" and wire.get("Result") != "":
        out.append(_v("wire_differs_from_reference", "InvocationOutput.to_dict:Result(empty)", repr(wire)))
    back, err = _guard("InvocationOutput.from_dict", lambda: X.DurableExecutionInvocationOutput.from_dict(json.loads(json.dumps(wire))))
    if err:
        out.append(err)
    else:
        d = diff(n, back)
        if d:
            out.append(_v("roundtrip_mismatch", "InvocationOutput.dict:" + d, f"in={n!r} out={back!r}"))
    return out


def check_timestamp(us: int) -> list[dict]:
    """TimestampConverter on its own: ms-exact instants survive; others truncate toward -inf within 1 ms."""
    t = _EPOCH + dt.timedelta(microseconds=us)
    ms, err = _guard("to_unix_millis", lambda: L.TimestampConverter.to_unix_millis(t))
    if err:
        return [err]
    exact = us // 1000
    out = []
    if ms != exact:
        out.append(_v("timestamp_millis_wrong", "TimestampConverter.to_unix_millis" + (":exact-ms" if us % 1000 == 0 else ""),
                      f"t={t.isoformat()} us={us} got {ms} expected {exact}"))
    back, err = _guard("from_unix_millis", lambda: L.TimestampConverter.from_unix_millis(exact))
    if err:
        out.append(err)
    elif back != _EPOCH + dt.timedelta(milliseconds=exact):
        out.append(_v("timestamp_millis_wrong", "TimestampConverter.from_unix_millis", f"ms={exact} got {back!r}"))
    return out


# --------------------------------------------------------------------------- case encoding (replay files)


def enc(x: Any) -> Any:
    import enum

    if isinstance(x, enum.Enum):
        return {"$enum": type(x).__name__, "v": x.name}
    if isinstance(x, dt.datetime):
        return {"$ts": (x - _EPOCH) // dt.timedelta(microseconds=1), "off": int(x.utcoffset().total_seconds() // 60)}
    if dataclasses.is_dataclass(x) and not isinstance(x, type):
        return {"$dc": type(x).__name__, "f": {f.name: enc(getattr(x, f.name)) for f in dataclasses.fields(x)}}
    if isinstance(x, list):
        return [enc(v) for v in x]
    if isinstance(x, dict):
        return {"$map": {k: enc(v) for k, v in x.items()}}
    if isinstance(x, str):
        try:
            x.encode()
            return x
        except UnicodeEncodeError:
            return {"$str": [ord(c) for c in x]}
    return x


_CLASSES = {c.__name__: c for c in (
    L.ErrorObject, L.StepOptions, L.WaitOptions, L.CallbackOptions, L.ChainedInvokeOptions, L.ContextOptions,
    L.OperationUpdate, L.Operation, L.ExecutionDetails, L.ContextDetails, L.StepDetails, L.WaitDetails,
    L.CallbackDetails, L.ChainedInvokeDetails, X.InitialExecutionState, X.DurableExecutionInvocationInput,
    X.DurableExecutionInvocationOutput, OperationIdentifier,
)}
_ENUMS = {c.__name__: c for c in (L.OperationAction, L.OperationStatus, L.OperationType, L.OperationSubType, X.InvocationStatus)}


def dec(j: Any) -> Any:
    if isinstance(j, list):
        return [dec(v) for v in j]
    if isinstance(j, dict):
        if "$enum" in j:
            return _ENUMS[j["$enum"]][j["v"]]
        if "$ts" in j:
            return _mk_ts(j["$ts"], j["off"])
        if "$dc" in j:
            return _CLASSES[j["$dc"]](**{k: dec(v) for k, v in j["f"].items()})
        if "$map" in j:
            return {k: dec(v) for k, v in j["$map"].items()}
        if "$str" in j:
            return "".join(chr(c) for c in j["$str"])
    return j


def _present(x) -> list[str]:
    out = []
    if dataclasses.is_dataclass(x) and not isinstance(x, type):
        for f in dataclasses.fields(x):
            v = getattr(x, f.name)
            if v is None or v == "" or v == []:
                continue
            if dataclasses.is_dataclass(v):
                out.append(f.name + "{" + ",".join(_present(v)) + "}")
            elif isinstance(v, list):
                out.append(f.name + "[" + ";".join(",".join(_present(i)) for i in v[:3]) + "]")
            else:
                import enum

                out.append(f.name + ("=" + v.name if isinstance(v, enum.Enum) else ""))
    return out


def _nontrivial(x) -> bool:
    p = _present(x)
    return any("{" in s or "[" in s for s in p) and len(p) >= 4


KINDS = {
    "operation": (operations, check_operation),
    "update": (raw_updates, check_update),
    "factory": (factory_calls, lambda c: check_factory(c[0], c[1])),
    "input": (invocation_inputs, check_input),
    "output": (invocation_outputs, check_output),
    "timestamp": (_us, check_timestamp),
}


def shard(ctx) -> None:
    b = ctx.budget
    plan = [
        ("operation", b["ops"]),
        ("update", b["updates"] // 2),
        ("factory", b["updates"] // 2),
        ("input", b["inputs"]),
        ("output", b["inputs"]),
        ("timestamp", b["ts"]),
    ]
    for i, (kind, n) in enumerate(plan):
        _run_kind(ctx, kind, n, ctx.seed + i)
    # the same laws with the process in another time zone (the codecs are defined on instants, not on local time)
    for j, tz in enumerate(TZS):
        for i, kind in enumerate(("timestamp", "operation", "input")):
            _run_kind(ctx, kind, max(20, dict(plan)[kind] // 8), ctx.seed + 100 + 10 * j + i, tz=tz)


TZS = ("JST-9", "EST5EDT", "NPT-5:45")


class _tz:
    def __init__(self, tz):
        self.tz = tz

    def __enter__(self):
        import os
        import time

        self.old = os.environ.get("TZ")
        if self.tz:
            os.environ["TZ"] = self.tz
            time.tzset()

    def __exit__(self, *a):
        import os
        import time

        if self.tz:
            if self.old is None:
                os.environ.pop("TZ", None)
            else:
                os.environ["TZ"] = self.old
            time.tzset()


def _run_kind(ctx, kind: str, n: int, sd: int, tz: str | None = None) -> None:
    strat, fn = KINDS[kind]

    @seed(sd)
    @settings(max_examples=n, database=None, deadline=None, phases=[Phase.generate],
              suppress_health_check=list(HealthCheck), report_multiple_bugs=False)
    @given(strat)
    def t(x):
        with _tz(tz):
            vs = fn(x)
        obj = x if kind not in ("factory", "timestamp") else None
        nt = _nontrivial(obj) if obj is not None else (kind == "factory")
        key = None
        if kind == "timestamp":
            key = ["ts", x % 1000 == 0, x % 7919] if ctx.histogram["timestamp"] < 400 else None
        elif nt:
            key = [kind, _present(obj)] if obj is not None else [kind, x[0], sorted(k for k, v in x[1].items() if v)]
        if tz and key is not None:
            key = [tz] + key
        ctx.case(nontrivial_key=key, classes=[kind] + (["process-time-zone:" + tz] if tz else []),
                 sample={"kind": kind, "case": enc(x)} if (nt and ctx.histogram[kind] < 2) else None)
        for v in vs:
            ctx.violation(v["kind"], v["site"] + (":non-UTC-process" if tz else ""), v["detail"], {"kind": kind, "value": enc(x), **({"tz": tz} if tz else {})})

    t()


def replay(case: dict) -> list[dict]:
    x = dec(case["value"])
    if case["kind"] == "factory":
        x = (x[0], x[1])
    with _tz(case.get("tz")):
        rs = KINDS[case["kind"]][1](x)
    return [{**r, "site": r["site"] + (":non-UTC-process" if case.get("tz") else "")} for r in rs]


def minimise(entry: dict) -> dict:
    kind = entry["case"]["kind"]
    strat, fn = KINDS[kind]
    if entry["case"].get("tz"):
        return entry
    sig = (entry["kind"], entry["site"])
    try:
        x = find(strat, lambda v: any((r["kind"], r["site"]) == sig for r in fn(v)),
                 settings=settings(max_examples=3000, database=None, deadline=None, suppress_health_check=list(HealthCheck)),
                 random=random.Random(0))
    except NoSuchExample:
        return entry
    r = [r for r in fn(x) if (r["kind"], r["site"]) == sig][0]
    return {**entry, "detail": r["detail"], "case": {"kind": kind, "value": enc(x)}}
