"""E6: runner, evidence, known findings, violation bucketing, sharding.

A check module exposes

    META   = dict(id=..., level=..., rule=..., assumptions=[...])
    def shard(ctx: ShardCtx) -> None      # runs cases, reports into ctx
    def replay(case: dict) -> list[dict]  # re-executes one saved case, returns violations [{kind, site, detail}]

`run_check` fans `shard` out over worker processes (spawn context, so that the
scheduler's global patches never live in the orchestrating process), merges the
partial results, matches violations against /verif/known_findings.json, writes
replay files and the evidence file and returns the exit code.

Exit codes: 0 held / only known findings; 1 violation (VIOLATION line printed);
2 harness error or not enough non-trivial cases (never a VIOLATION line).
"""
from __future__ import annotations

import hashlib
import json
import multiprocessing as mp
import os
import sys
import time
import traceback
from collections import Counter
from dataclasses import dataclass, field
from typing import Any, Callable

from . import VERIF

MAX_SAMPLES = 6
MAX_VIOL_PER_BUCKET = 3


def stable_hash(obj: Any) -> str:
    return hashlib.sha1(
        json.dumps(obj, sort_keys=True, default=repr).encode()
    ).hexdigest()[:16]


def derive_seed(seed: int, shard: int, salt: str = "") -> int:
    h = hashlib.sha256(f"{seed}:{shard}:{salt}".encode()).digest()
    return int.from_bytes(h[:8], "big")


class EnoughEvidence(BaseException):
    """A shard that has found a new violation keeps collecting for a bounded time only (a broken tree can make every
    case pathologically slow); raised from ShardCtx.case(), caught in _worker. BaseException: Hypothesis lets it through."""


@dataclass
class ShardCtx:
    """What a shard reports. Plain data so that it crosses the process boundary."""

    prop: str
    tier: str
    seed: int  # already derived for this shard
    shard: int
    nshards: int
    budget: dict  # per-tier numbers chosen by the module
    evaluations: int = 0
    nontrivial: set = field(default_factory=set)
    histogram: Counter = field(default_factory=Counter)
    excluded: Counter = field(default_factory=Counter)
    inconclusive: int = 0
    samples: list = field(default_factory=list)
    violations: dict = field(default_factory=dict)  # sig -> list[dict]
    extra: dict = field(default_factory=dict)
    notes: list = field(default_factory=list)
    known_sigs: set = field(default_factory=set)
    first_new_violation_t: float | None = None

    # -- reporting API -------------------------------------------------
    def case(self, *, nontrivial_key: Any = None, classes=(), sample: Any = None) -> None:
        """Count one evaluated case. `nontrivial_key` is a hashable/JSON-able shape
        description when the case is non-trivial by the module's rule (else None)."""
        self.evaluations += 1
        if self.first_new_violation_t is not None and time.time() - self.first_new_violation_t > self.budget.get("stop_after_violation_s", 90 if self.tier == "quick" else 600):
            self.notes.append("stopped early: enough evidence after the first new violation")
            raise EnoughEvidence
        if nontrivial_key is not None:
            self.nontrivial.add(stable_hash(nontrivial_key))
            if sample is not None and len(self.samples) < MAX_SAMPLES:
                self.samples.append(sample)
        for c in classes:
            self.histogram[c] += 1

    def violation(self, kind: str, site: str, detail: str, case: Any) -> None:
        sig = f"{kind}|{site}"
        if sig not in self.known_sigs and self.first_new_violation_t is None:
            self.first_new_violation_t = time.time()
        lst = self.violations.setdefault(sig, [])
        entry = {
            "kind": kind,
            "site": site,
            "detail": str(detail)[:2000],
            "case": case,
            "size": len(json.dumps(case, default=repr)),
        }
        lst.append(entry)
        lst.sort(key=lambda e: e["size"])
        del lst[MAX_VIOL_PER_BUCKET:]

    def exclude(self, shape: str, n: int = 1) -> None:
        self.excluded[shape] += n

    def to_payload(self) -> dict:
        return {
            "evaluations": self.evaluations,
            "nontrivial": sorted(self.nontrivial),
            "histogram": dict(self.histogram),
            "excluded": dict(self.excluded),
            "inconclusive": self.inconclusive,
            "samples": self.samples,
            "violations": self.violations,
            "extra": self.extra,
            "notes": self.notes,
        }


def _worker(args):
    modname, prop, tier, seed, shard, nshards, budget = args
    os.environ.setdefault("PYTHONHASHSEED", "0")
    import logging

    logging.disable(logging.CRITICAL)  # the SDK logs every handled exception with a traceback
    cov = None
    if os.environ.get("VERIF_COVERAGE"):
        # development aid (tools/sdkcov.sh): which SDK lines do the generated cases execute?
        import coverage

        from . import REPO

        cov = coverage.Coverage(data_file=os.path.join(os.environ["VERIF_COVERAGE"], f".coverage.{prop}.{shard}"), source=[os.path.join(REPO, "src")], concurrency=["thread"])
        cov.start()
    try:
        import importlib

        mod = importlib.import_module(modname)
        ctx = ShardCtx(prop, tier, derive_seed(seed, shard, prop), shard, nshards, budget)
        ctx.known_sigs = {f"{e['signature']['kind']}|{e['signature']['site']}" for e in load_known().get("open", []) if e.get("property") == prop}
        try:
            mod.shard(ctx)
        except EnoughEvidence:
            pass
        return ("ok", ctx.to_payload())
    except BaseException:  # noqa: BLE001 - harness error, reported as exit 2
        return ("err", traceback.format_exc())
    finally:
        if cov is not None:
            cov.stop()
            cov.save()


def load_known() -> dict:
    p = os.path.join(VERIF, "known_findings.json")
    if not os.path.exists(p):
        return {"open": [], "fixed": []}
    with open(p) as f:
        return json.load(f)


def _outdir() -> str:
    """Where evidence/ and replays/ go: /verif, unless VERIF_OUT redirects (used by the mutant sweeps)."""
    return os.environ.get("VERIF_OUT") or VERIF


def write_replay(prop: str, entry: dict, engine: str) -> str:
    d = os.path.join(_outdir(), "replays")
    os.makedirs(d, exist_ok=True)
    body = {
        "property": prop,
        "engine": engine,
        "format": 1,
        "case": entry["case"],
        "violation": {k: entry[k] for k in ("kind", "site", "detail")},
    }
    h = stable_hash([prop, entry["kind"], entry["site"], entry["case"]])[:10]
    path = os.path.join(d, f"{prop}-{h}.json")
    with open(path, "w") as f:
        json.dump(body, f, indent=1, sort_keys=True, default=repr)
    return path


def run_check(
    mod,
    tier: str,
    seed: int,
    *,
    nshards: int | None = None,
    minimise: Callable[[dict], dict] | None = None,
) -> int:
    meta = mod.META
    prop = meta["id"]
    t0 = time.time()
    budget = meta["budget"][tier]
    if nshards is None:
        nshards = budget.get("shards", 4 if tier == "quick" else 16)
    nshards = max(1, min(nshards, os.cpu_count() or 1))
    jobs = [(mod.__name__, prop, tier, seed, i, nshards, budget) for i in range(nshards)]
    if nshards == 1 and os.environ.get("VERIF_INPROC") == "1":
        results = [_worker(jobs[0])]
    else:
        ctx = mp.get_context("spawn")
        with ctx.Pool(nshards) as pool:
            results = pool.map(_worker, jobs)

    errors = [r[1] for r in results if r[0] == "err"]
    if errors:
        sys.stdout.write(f"HARNESS-ERROR property={prop}\n{errors[0]}\n")
        return 2

    evaluations = 0
    nontrivial: set = set()
    histogram: Counter = Counter()
    excluded: Counter = Counter()
    inconclusive = 0
    samples: list = []
    buckets: dict = {}
    extra: dict = {}
    notes: list = []
    for _, p in results:
        evaluations += p["evaluations"]
        nontrivial.update(p["nontrivial"])
        histogram.update(p["histogram"])
        excluded.update(p["excluded"])
        inconclusive += p["inconclusive"]
        for s in p["samples"]:
            if len(samples) < MAX_SAMPLES:
                samples.append(s)
        for sig, lst in p["violations"].items():
            b = buckets.setdefault(sig, [])
            b.extend(lst)
            b.sort(key=lambda e: e["size"])
            del b[MAX_VIOL_PER_BUCKET:]
        for k, v in p["extra"].items():
            if isinstance(v, (int, float)) and not isinstance(v, bool):
                extra[k] = extra.get(k, 0) + v
            elif isinstance(v, bool):
                extra[k] = extra.get(k, True) and v
            elif isinstance(v, dict):
                extra.setdefault(k, {}).update(v)
            else:
                extra.setdefault(k, v)
        notes.extend(p["notes"])

    known = load_known()
    open_for = [e for e in known.get("open", []) if e["property"] == prop]
    known_seen: Counter = Counter()
    new_violations = []

    # 1. witnesses of listed findings: re-run each, print KNOWN-FINDING if it still reproduces
    for e in open_for:
        sig = f"{e['signature']['kind']}|{e['signature']['site']}"
        wpath = os.path.join(VERIF, e["witness"])
        reproduced = False
        try:
            with open(wpath) as f:
                w = json.load(f)
            vs = mod.replay(w["case"])
            reproduced = any(f"{v['kind']}|{v['site']}" == sig for v in vs)
            for v in vs:
                s2 = f"{v['kind']}|{v['site']}"
                if s2 != sig and not any(
                    s2 == f"{o['signature']['kind']}|{o['signature']['site']}" for o in open_for
                ):
                    buckets.setdefault(s2, []).append(
                        {**v, "case": w["case"], "size": len(json.dumps(w["case"], default=repr))}
                    )
        except Exception:  # noqa: BLE001
            sys.stdout.write(f"HARNESS-ERROR property={prop} witness {wpath}\n{traceback.format_exc()}\n")
            return 2
        if reproduced:
            known_seen[sig] += 1
            sys.stdout.write(f"KNOWN-FINDING: property={prop} {e['what']} [witness {e['witness']}]\n")

    # 2. generated violations: suppress only listed signatures
    open_sigs = {f"{e['signature']['kind']}|{e['signature']['site']}" for e in open_for}
    for sig, lst in sorted(buckets.items()):
        if sig in open_sigs:
            known_seen[sig] += len(lst)
            continue
        entry = lst[0]
        if minimise is not None and not os.environ.get("VERIF_NO_MINIMISE") and time.time() - t0 < budget.get("minimise_deadline_s", 240) and len(new_violations) < 6:
            try:
                entry = minimise(entry)
            except Exception:  # noqa: BLE001
                notes.append("minimiser failed: " + traceback.format_exc()[-400:])
        path = write_replay(prop, entry, meta.get("engine", "pure"))
        new_violations.append((sig, entry, path))
        sys.stdout.write(
            f"VIOLATION property={prop} replay={path}\n"
            f"  kind={entry['kind']} site={entry['site']}\n  detail={entry['detail'][:600]}\n"
        )

    wall = time.time() - t0
    min_nt = budget.get("min_nontrivial", 2)
    coverage = {
        "evaluations": evaluations,
        "distinct_nontrivial": len(nontrivial),
        "rule": meta["rule"],
        "samples": samples if samples else ["<no non-trivial sample recorded>"],
        "histogram": dict(sorted(histogram.items())),
        "excluded": dict(sorted(excluded.items())),
        "inconclusive": inconclusive,
        "known_findings_seen": dict(known_seen),
        "shards": nshards,
    }
    coverage.update(extra)
    if notes:
        coverage["notes"] = notes[:20]
    evidence = {
        "property_id": prop,
        "tier": tier,
        "seed": seed,
        "level": meta["level"],
        "coverage": coverage,
        "assumptions": meta.get("assumptions", []),
        "wall_s": round(wall, 2),
        "violations": len(new_violations),
    }
    evdir = os.path.join(_outdir(), "evidence")
    os.makedirs(evdir, exist_ok=True)
    with open(os.path.join(evdir, f"{prop}.json"), "w") as f:
        json.dump(evidence, f, indent=1, sort_keys=False, default=repr)

    sys.stdout.write(
        f"{prop} tier={tier} seed={seed} evaluations={evaluations} "
        f"distinct_nontrivial={len(nontrivial)} violations={len(new_violations)} "
        f"known={sum(known_seen.values())} wall={wall:.1f}s\n"
    )
    if new_violations:
        return 1
    if len(nontrivial) < min_nt:
        sys.stdout.write(
            f"INCONCLUSIVE property={prop}: only {len(nontrivial)} non-trivial cases (< {min_nt})\n"
        )
        return 2
    return 0


def run_replay(mod, path: str) -> int:
    with open(path) as f:
        w = json.load(f)
    vs = mod.replay(w["case"])
    prop = mod.META["id"]
    if vs:
        for v in vs:
            sys.stdout.write(
                f"VIOLATION property={prop} replay={path}\n  kind={v['kind']} site={v['site']}\n  detail={v['detail'][:1200]}\n"
            )
        return 1
    sys.stdout.write(f"{prop} replay {path}: no violation\n")
    return 0
