"""E2 simbackend - stateful model of the durable-functions service, speaking the wire protocol.

The SDK handler is built with durable_execution(boto3_client=FakeBoto(...)): updates arrive as the dicts
OperationUpdate.to_dict() produced, operations go back as dicts this model builds itself, the invocation event
is the JSON dict. The model never trusts the SDK: every arriving update goes through the lifecycle automaton
(C11) and is logged with (invocation, api call, position, virtual time); invalid updates are recorded and then
applied leniently so one defect does not cascade.
"""
from __future__ import annotations

import datetime as dt
from typing import Any

UTC = dt.timezone.utc
TERMINAL = {"SUCCEEDED", "FAILED", "CANCELLED", "TIMED_OUT", "STOPPED"}


def ts(t: float) -> dt.datetime:
    return dt.datetime.fromtimestamp(t, UTC)


class ServiceFault(Exception):
    """What a boto client raises (ClientError look-alike): carries .response like botocore."""

    injected_fault = True  # fault injection, never a harness error (see detsched.is_harness_exc)

    def __init__(self, code: str, message: str, status: int):
        super().__init__(f"An error occurred ({code}) when calling the operation: {message}")
        # like botocore: ResponseMetadata always carries the HTTP headers; a genuine service error has the x-amzn-*
        # ones, a page produced by an intermediary (load balancer / front end 502-504) has not
        gateway = code.isdigit()
        headers = {"content-type": "text/html", "server": "awselb/2.0", "content-length": "162"} if gateway else \
            {"x-amzn-requestid": "req-sim", "x-amzn-errortype": code, "content-type": "application/json", "date": "Fri, 15 Jan 2027 08:00:00 GMT"}
        self.response = {
            "Error": {"Code": code, "Message": message},
            "ResponseMetadata": {"HTTPStatusCode": status, "RequestId": "" if gateway else "req-sim", "HTTPHeaders": headers, "RetryAttempts": 0},
        }


FAULT_CLASSES = {
    # name: (code, message, http status, expected handler behaviour per the SDK's documented table)
    "client4xx": ("ResourceNotFoundException", "no such execution", 404, "raise"),
    "validation": ("InvalidParameterValueException", "bad update", 400, "raise"),
    "invalid_token": ("InvalidParameterValueException", "Invalid Checkpoint Token: stale", 400, "FAILED"),
    "throttle": ("TooManyRequestsException", "slow down", 429, "FAILED"),
    "server5xx": ("ServiceException", "internal error", 500, "FAILED"),
    "gateway5xx": ("503", "Service Unavailable", 503, "FAILED"),  # HTML page of an intermediary: no x-amzn-* headers, numeric error code
}


class Backend:
    def __init__(self, cfg: dict | None = None, input_payload: str | None = "{}"):
        cfg = cfg or {}
        self.response_mode = cfg.get("response", "delta")  # delta | full
        self.page_size = cfg.get("page_size")  # None = unpaged responses
        self.first_page = cfg.get("first_page")  # None = everything in the invocation payload; k = EXECUTION + k ops
        self.state_page = cfg.get("state_page", 3)
        self.prune_children = cfg.get("prune_children", False)
        self.timer_lag = cfg.get("timer_lag", 0.0)
        self.api_latency = cfg.get("api_latency", 0.0)
        self.slow_calls = cfg.get("slow_calls") or {}  # {"<inv>:<api index>": seconds} - a brown-out of single calls
        self.empty_page_at = cfg.get("empty_page_at")  # insert an empty page (with a marker) after that many pages
        self.arn = "arn:aws:lambda:us-east-1:123456789012:durable-execution:sim"
        self.now = cfg.get("t0", 1_800_000_000.0)
        self.ops: dict[str, dict] = {}
        self.order: list[str] = []
        self.version = 0
        self.tok_n = 0
        self.token = "tok-0"
        self.tok_version = {"tok-0": 0}
        self.log: list[dict] = []  # accepted updates
        self.api: list[dict] = []  # every API call
        self.violations: list[dict] = []  # lifecycle (C11) violations
        self.token_mismatches: list = []
        self.closed = None  # ('SUCCEED'|'FAIL', payload/error) once an EXECUTION result was recorded
        self.inv = -1
        self.cb_n = 0
        self.input_payload = input_payload
        self.pages: dict[str, list] = {}
        self.by_path: dict[str, str] = {}
        self.path_of: dict[str, str] = {}
        self.after_exec_result = 0
        self.auto_changes = 0  # status changes made by the service itself (timers fired, external completions)
        self._mk_execution_op()
        # hooks
        self.on_update = None

    # ------------------------------------------------------------------ helpers
    def _mk_execution_op(self):
        self.ops["exec-0"] = {
            "Id": "exec-0", "Type": "EXECUTION", "Status": "STARTED", "StartTimestamp": self.now,
            "ExecutionDetails": {"InputPayload": self.input_payload}, "_v": 0, "_created_inv": -1,
        }
        self.order.append("exec-0")

    def _touch(self, op):
        self.version += 1
        op["_v"] = self.version

    def lifecycle(self, kind: str, site: str, detail: str):
        self.violations.append({"kind": kind, "site": site, "detail": detail, "inv": self.inv})

    def path_for(self, upd: dict) -> str:
        """Structural path carried by the test program in Name; branch contexts get parent path + index."""
        name = upd.get("Name") or ""
        parent = upd.get("ParentId")
        st = upd.get("SubType")
        if st in ("ParallelBranch", "MapIteration") and parent in self.path_of:
            idx = name.rsplit("-", 1)[-1]
            return f"{self.path_of[parent]}/{idx}"
        if parent in self.path_of and name.endswith(" create callback id"):
            return f"{self.path_of[parent]}#cbid"
        if parent in self.path_of and name.endswith(" submitter"):
            return f"{self.path_of[parent]}#submitter"
        return name

    def ancestors(self, oid: str) -> list[str]:
        out = []
        cur = self.ops.get(oid, {}).get("ParentId")
        seen = set()
        while cur and cur not in seen:
            seen.add(cur)
            out.append(cur)
            cur = self.ops.get(cur, {}).get("ParentId")
        return out

    # ------------------------------------------------------------------ applying updates
    def apply(self, upd: dict, api_idx: int, pos: int) -> None:
        oid = upd.get("Id")
        typ = upd.get("Type")
        act = upd.get("Action")
        op = self.ops.get(oid)
        site = f"{typ}:{act}"
        if self.closed is not None:
            self.after_exec_result += 1
            self.lifecycle("update_after_execution_result", site, f"update {upd.get('Name')}/{oid[:8]} after the execution result was recorded")
        if typ == "EXECUTION":
            if act not in ("SUCCEED", "FAIL"):
                self.lifecycle("bad_execution_action", site, str(act))
            if self.closed is not None:
                self.lifecycle("execution_result_twice", site, "second execution-level result record")
            self.closed = (act, upd.get("Payload"), upd.get("Error"))
            ex = self.ops["exec-0"]
            ex["Status"] = "SUCCEEDED" if act == "SUCCEED" else "FAILED"
            self._touch(ex)
            self._log(upd, api_idx, pos, None)
            return
        new = op is None
        if new:
            if act != "START":
                self.lifecycle("first_update_not_start", site, f"{upd.get('Name')}: first update is {act}")
            parent = upd.get("ParentId")
            if parent:
                pop = self.ops.get(parent)
                if pop is None:
                    self.lifecycle("child_before_parent_start", site, f"{upd.get('Name')}: parent {parent[:8]} has no START yet")
                elif pop["Type"] != "CONTEXT":
                    self.lifecycle("parent_not_context", site, f"{upd.get('Name')}: parent is {pop['Type']}")
            op = {
                "Id": oid, "Type": typ, "SubType": upd.get("SubType"), "Name": upd.get("Name"), "ParentId": upd.get("ParentId"),
                "Status": None, "Attempt": 0, "StartTimestamp": self.now, "_created_inv": self.inv, "_starts_this_attempt": 0,
            }
            self.ops[oid] = op
            self.order.append(oid)
            p = self.path_for(upd)
            op["_path"] = p
            self.path_of[oid] = p
            if p in self.by_path and self.by_path[p] != oid:
                op["_path_clash"] = self.by_path[p]
            self.by_path.setdefault(p, oid)
        else:
            for k in ("Type", "SubType", "ParentId", "Name"):
                if upd.get(k) != op.get(k) and not (k == "SubType" and upd.get(k) is None):
                    self.lifecycle("identity_field_changed", f"{site}:{k}", f"{op.get('Name')}: {k} {op.get(k)!r} -> {upd.get(k)!r}")
        status = op["Status"]
        if status in TERMINAL:
            self.lifecycle("update_after_terminal", site, f"{op.get('Name')}: {act} while backend holds {status}")
        # parent context already completed? (C10 is judged by the orphan monitor; here only noted in the log entry)
        under_done = [a for a in self.ancestors(oid) if self.ops[a]["Status"] in TERMINAL]
        if typ == "STEP":
            self._apply_step(op, upd, act, status, site, new)
        elif typ == "WAIT":
            if act != "START" or not new:
                self.lifecycle("wait_bad_action", site, f"{op.get('Name')}: {act} (status {status})")
            if act == "START":
                secs = (upd.get("WaitOptions") or {}).get("WaitSeconds", 1)
                if not isinstance(secs, int) or secs < 1:
                    self.lifecycle("wait_seconds_invalid", site, f"WaitSeconds={secs!r}")
                    secs = 1
                op["Status"] = "STARTED"
                op["WaitEnd"] = self.now + secs
        elif typ == "CALLBACK":
            if act != "START" or not new:
                self.lifecycle("callback_bad_action", site, f"{op.get('Name')}: {act} (status {status})")
            if act == "START" and new:
                self.cb_n += 1
                op["Status"] = "STARTED"
                op["CallbackId"] = f"cb-{self.cb_n}-{oid[:6]}"
                op["CallbackOptions"] = upd.get("CallbackOptions")
        elif typ == "CHAINED_INVOKE":
            if act != "START" or not new:
                self.lifecycle("invoke_bad_action", site, f"{op.get('Name')}: {act} (status {status})")
            if act == "START" and new:
                op["Status"] = "STARTED"
                op["InvokePayload"] = upd.get("Payload")
                op["InvokeOptions"] = upd.get("ChainedInvokeOptions")
                op["_starts"] = op.get("_starts", 0) + 1
        elif typ == "CONTEXT":
            if act == "START":
                if not new:
                    self.lifecycle("context_started_twice", site, f"{op.get('Name')}: START again (status {status})")
                op["Status"] = op["Status"] or "STARTED"
            elif act in ("SUCCEED", "FAIL"):
                if status not in ("STARTED",):
                    if status is None:
                        pass  # already reported as first_update_not_start
                op["Status"] = "SUCCEEDED" if act == "SUCCEED" else "FAILED"
                op["EndTimestamp"] = self.now
                if act == "SUCCEED":
                    op["Result"] = upd.get("Payload")
                    op["ReplayChildren"] = bool((upd.get("ContextOptions") or {}).get("ReplayChildren", False))
                else:
                    op["Error"] = upd.get("Error")
            else:
                self.lifecycle("context_bad_action", site, f"{op.get('Name')}: {act}")
        else:
            self.lifecycle("unknown_type", site, str(typ))
        self._touch(op)
        self._log(upd, api_idx, pos, under_done)

    def _apply_step(self, op, upd, act, status, site, new):
        if act == "START":
            if status == "STARTED":
                self.lifecycle("start_twice_for_attempt", site, f"{op.get('Name')}: START while already STARTED (attempt {op['Attempt']})")
            elif status == "PENDING":
                self.lifecycle("update_while_pending", site, f"{op.get('Name')}: START while PENDING retry timer")
            op["Status"] = "STARTED"
            op.pop("NextAttempt", None)
            op["_started_attempts"] = op.get("_started_attempts", []) + [op["Attempt"]]
        elif act == "RETRY":
            if status == "PENDING":
                self.lifecycle("update_while_pending", site, f"{op.get('Name')}: RETRY while PENDING")
            elif status not in ("STARTED", "READY") and not new:
                self.lifecycle("retry_from_bad_state", site, f"{op.get('Name')}: RETRY from {status}")
            delay = (upd.get("StepOptions") or {}).get("NextAttemptDelaySeconds")
            if not isinstance(delay, int) or delay < 1:
                self.lifecycle("retry_delay_invalid", site, f"{op.get('Name')}: NextAttemptDelaySeconds={delay!r}")
                delay = 1
            op["Status"] = "PENDING"
            op["Attempt"] = op["Attempt"] + 1
            op["NextAttempt"] = self.now + delay
            op["_retry_delays"] = op.get("_retry_delays", []) + [delay]
            if upd.get("Error") is not None:
                op["Error"] = upd.get("Error")
            if "Payload" in upd:
                op["Result"] = upd.get("Payload")
        elif act in ("SUCCEED", "FAIL"):
            if status == "PENDING":
                self.lifecycle("update_while_pending", site, f"{op.get('Name')}: {act} while PENDING")
            op["Status"] = "SUCCEEDED" if act == "SUCCEED" else "FAILED"
            op["EndTimestamp"] = self.now
            if act == "SUCCEED":
                op["Result"] = upd.get("Payload")
                op.pop("Error", None)
            else:
                op["Error"] = upd.get("Error")
        else:
            self.lifecycle("step_bad_action", site, f"{op.get('Name')}: {act}")

    def _log(self, upd, api_idx, pos, under_done):
        e = {"inv": self.inv, "api": api_idx, "pos": pos, "t": self.now, "n": len(self.log), "upd": upd, "under_done": under_done or []}
        self.log.append(e)
        if self.on_update is not None:
            self.on_update(e)

    # ------------------------------------------------------------------ time / external world
    def fire_due(self, now: float | None = None) -> int:
        if now is not None:
            self.now = max(self.now, now)
        n = 0
        for op in self.ops.values():
            if op["Type"] == "WAIT" and op["Status"] == "STARTED" and op.get("WaitEnd", 1e99) + self.timer_lag <= self.now:
                op["Status"] = "SUCCEEDED"
                op["EndTimestamp"] = self.now
                self._touch(op)
                n += 1
            elif op["Type"] == "STEP" and op["Status"] == "PENDING" and op.get("NextAttempt", 1e99) + self.timer_lag <= self.now:
                op["Status"] = "READY"
                self._touch(op)
                n += 1
        self.auto_changes += n
        return n

    def next_timer(self) -> float | None:
        c = []
        for op in self.ops.values():
            if op["Type"] == "WAIT" and op["Status"] == "STARTED":
                c.append(op["WaitEnd"] + self.timer_lag)
            elif op["Type"] == "STEP" and op["Status"] == "PENDING":
                c.append(op["NextAttempt"] + self.timer_lag)
        return min(c) if c else None

    def complete_external(self, oid: str, status: str, result: str | None = None, error: dict | None = None) -> bool:
        op = self.ops.get(oid)
        if op is None or op["Status"] != "STARTED" or op["Type"] not in ("CALLBACK", "CHAINED_INVOKE"):
            return False
        op["Status"] = status
        op["EndTimestamp"] = self.now
        if result is not None:
            op["Result"] = result
        if error is not None:
            op["Error"] = error
        self._touch(op)
        self.auto_changes += 1
        return True

    def outstanding_external(self) -> list[dict]:
        return [op for op in self.ops.values() if op["Type"] in ("CALLBACK", "CHAINED_INVOKE") and op["Status"] == "STARTED"]

    # ------------------------------------------------------------------ wire forms
    def op_wire(self, op: dict, json_form: bool) -> dict:
        def T(t):
            if t is None:
                return None
            return int(round(t * 1000)) if json_form else ts(t)

        d: dict[str, Any] = {"Id": op["Id"], "Type": op["Type"], "Status": op["Status"]}
        for k in ("ParentId", "Name", "SubType"):
            if op.get(k):
                d[k] = op[k]
        if op.get("StartTimestamp") is not None:
            d["StartTimestamp"] = T(op["StartTimestamp"])
        if op.get("EndTimestamp") is not None:
            d["EndTimestamp"] = T(op["EndTimestamp"])
        t = op["Type"]
        if t == "EXECUTION":
            d["ExecutionDetails"] = {"InputPayload": op["ExecutionDetails"]["InputPayload"]}
        elif t == "CONTEXT":
            c: dict[str, Any] = {}
            if op.get("ReplayChildren"):
                c["ReplayChildren"] = True
            if op.get("Result") is not None:
                c["Result"] = op["Result"]
            if op.get("Error"):
                c["Error"] = op["Error"]
            d["ContextDetails"] = c
        elif t == "STEP":
            s: dict[str, Any] = {"Attempt": op.get("Attempt", 0)}
            if op.get("NextAttempt") is not None and op["Status"] in ("PENDING", "READY"):
                s["NextAttemptTimestamp"] = T(op["NextAttempt"])
            if op.get("Result") is not None:
                s["Result"] = op["Result"]
            if op.get("Error"):
                s["Error"] = op["Error"]
            d["StepDetails"] = s
        elif t == "WAIT":
            d["WaitDetails"] = {"ScheduledEndTimestamp": T(op.get("WaitEnd"))}
        elif t == "CALLBACK":
            cb: dict[str, Any] = {"CallbackId": op.get("CallbackId", "")}
            if op.get("Result") is not None:
                cb["Result"] = op["Result"]
            if op.get("Error"):
                cb["Error"] = op["Error"]
            d["CallbackDetails"] = cb
        elif t == "CHAINED_INVOKE":
            ci: dict[str, Any] = {}
            if op.get("Result") is not None:
                ci["Result"] = op["Result"]
            if op.get("Error"):
                ci["Error"] = op["Error"]
            d["ChainedInvokeDetails"] = ci
        return d

    def _pruned(self, oid: str) -> bool:
        if not self.prune_children:
            return False
        for a in self.ancestors(oid):
            ao = self.ops[a]
            if ao["Type"] == "CONTEXT" and ao["Status"] in TERMINAL and not ao.get("ReplayChildren"):
                return True
        return False

    def history(self) -> list[dict]:
        """Operations handed to a new invocation, in creation order, EXECUTION first."""
        return [self.ops[i] for i in self.order if not self._pruned(i)]

    def start_invocation(self) -> dict:
        self.inv += 1
        self.tok_n += 1
        self.token = f"tok-{self.tok_n}"
        self.tok_version[self.token] = self.version
        self.inv_start_status = getattr(self, "inv_start_status", {})
        self.inv_start_status[self.inv] = {o["Id"]: o["Status"] for o in self.history()}
        ops = [self.op_wire(o, True) for o in self.history()]
        if self.first_page is None or len(ops) <= 1 + self.first_page:
            first, rest = ops, []
        else:
            first, rest = ops[: 1 + self.first_page], ops[1 + self.first_page:]
        marker = ""
        if rest:
            marker = self._store_pages(rest, json_form=True)
        return {
            "DurableExecutionArn": self.arn,
            "CheckpointToken": self.token,
            "InitialExecutionState": {"Operations": first, "NextMarker": marker},
        }

    def _store_pages(self, items: list, json_form: bool) -> str:
        key = f"mk-{len(self.pages)}"
        size = max(1, self.state_page)
        chunks = [items[i: i + size] for i in range(0, len(items), size)]
        if self.empty_page_at is not None and chunks:
            # a page may legitimately be empty and still carry a continuation marker
            chunks.insert(min(self.empty_page_at, len(chunks) - 1), [])
        for i, ch in enumerate(chunks):
            self.pages[f"{key}-{i}"] = (ch, f"{key}-{i + 1}" if i + 1 < len(chunks) else None, json_form)
        return f"{key}-0"

    # ------------------------------------------------------------------ API
    def checkpoint(self, token: str, updates: list[dict], api_idx: int) -> dict:
        if token != self.token:
            self.token_mismatches.append((api_idx, token, self.token))
            raise ServiceFault("InvalidParameterValueException", "Invalid Checkpoint Token: expected " + self.token, 400)
        since = self.tok_version.get(token, 0)
        for pos, u in enumerate(updates):
            self.apply(u, api_idx, pos)
        self.tok_n += 1
        self.token = f"tok-{self.tok_n}"
        self.tok_version[self.token] = self.version
        if self.response_mode == "full":
            ops = [self.ops[i] for i in self.order]
        else:
            ops = [self.ops[i] for i in self.order if self.ops[i]["_v"] > since]
        wire = [self.op_wire(o, False) for o in ops if o["Type"] != "EXECUTION" or self.response_mode == "full"]
        state: dict[str, Any] = {"Operations": wire}
        if self.page_size and len(wire) > self.page_size:
            state["Operations"] = wire[: self.page_size]
            state["NextMarker"] = self._store_pages(wire[self.page_size:], json_form=False)
        return {"CheckpointToken": self.token, "NewExecutionState": state}

    def get_state(self, marker: str) -> dict:
        if marker not in self.pages:
            raise ServiceFault("InvalidParameterValueException", "bad marker", 400)
        items, nxt, json_form = self.pages[marker]
        if json_form:
            # the paged part of the *initial* state is fetched through the API (datetime form)
            items = [self._json_to_api(i) for i in items]
        out: dict[str, Any] = {"Operations": items}
        if nxt:
            out["NextMarker"] = nxt
        return out

    @staticmethod
    def _json_to_api(d: dict) -> dict:
        import copy

        d = copy.deepcopy(d)

        def conv(o, k):
            if isinstance(o.get(k), int):
                o[k] = dt.datetime.fromtimestamp(o[k] / 1000, UTC)

        conv(d, "StartTimestamp")
        conv(d, "EndTimestamp")
        if "StepDetails" in d:
            conv(d["StepDetails"], "NextAttemptTimestamp")
        if "WaitDetails" in d:
            conv(d["WaitDetails"], "ScheduledEndTimestamp")
        return d


class FakeBoto:
    """The boto3 'lambda' client surface the SDK uses. One instance per invocation."""

    def __init__(self, backend: Backend, sched, plan: dict | None, inv: int, hooks=None):
        self.b = backend
        self.sched = sched
        self.plan = plan or {}
        self.inv = inv
        self.n = 0  # API call index within this invocation
        self.failed_at = None
        self.last_version = backend.version
        self.calls_after_failure = 0
        self.hooks = hooks
        self.clock = None

    def _fault(self, idx):
        for f in self.plan.get("faults", ()):
            if f.get("inv", 0) == self.inv and f["api"] <= idx < f["api"] + f.get("repeat", 1):
                return f  # "repeat": the same error for that many consecutive calls (a throttled client that retries)
        return None

    def _garbage(self, idx):
        for f in self.plan.get("garbage", ()):
            if f.get("inv", 0) == self.inv and f["api"] == idx:
                return f
        return None

    def _crash(self, idx, at):
        for c in self.plan.get("crashes", ()):
            if c.get("inv", 0) == self.inv and c["at"] == at and c["n"] == idx:
                return True
        return False

    def _call(self, kind, fn, rec):
        idx = self.n
        self.n += 1
        b = self.b
        s = self.sched
        rec.update({"inv": self.inv, "idx": idx, "kind": kind, "t_start": s.now if s else b.now,
                    "live_tasks": sum(1 for t in s.tasks if t.state != "done") if s else 0})
        b.api.append(rec)
        if self.failed_at is not None:
            self.calls_after_failure += 1
            rec["after_failure"] = True
        if s is not None:
            s.yield_point("api")
            b.fire_due(s.now)
        if self.hooks and self.hooks.get("before_api"):
            self.hooks["before_api"](self, rec)
        lat = b.api_latency + (b.slow_calls.get(f"{self.inv}:{idx}", 0.0) if b.slow_calls else 0.0)
        if s is not None and lat:
            s.sleep(lat)  # the call is in flight: other tasks run meanwhile
            b.fire_due(s.now)
        if self._crash(idx, "api_before"):
            rec["crashed"] = "before"
            s.crash()
        f = self._fault(idx)
        if f and f.get("when", "before") == "before":
            self.failed_at = idx if self.failed_at is None else self.failed_at
            rec["fault"] = f
            rec["fail_clk"] = self.clock() if self.clock else 0
            code, msg, status, _ = FAULT_CLASSES[f["class"]]
            raise ServiceFault(code, msg, status)
        out = fn()
        rec["applied"] = True
        self.last_version = b.version
        g = self._garbage(idx)
        if g:
            # a call that succeeds at HTTP level but whose response the SDK cannot parse
            self.failed_at = idx if self.failed_at is None else self.failed_at
            rec["fault"] = {"class": "garbage_response", **g}
            rec["fail_clk"] = self.clock() if self.clock else 0
            bad = {"Id": "zz", "Type": "STEP", "Status": "SUCCEEDED"}
            if g["what"] == "status":
                bad["Status"] = "WEIRD"
            elif g["what"] == "type":
                bad["Type"] = "NOPE"
            else:
                bad.pop("Id")
            key = "NewExecutionState" if kind == "checkpoint" else None
            if key:
                out = {**out, key: {**out.get(key, {}), "Operations": list(out.get(key, {}).get("Operations", [])) + [bad]}}
            else:
                out = {**out, "Operations": list(out.get("Operations", [])) + [bad]}
        if s is not None:
            b.now = max(b.now, s.now)
        if self.hooks and self.hooks.get("after_apply"):
            self.hooks["after_apply"](self, rec)
        if self._crash(idx, "api_after"):
            rec["crashed"] = "after"
            s.crash()
        if f:
            self.failed_at = idx if self.failed_at is None else self.failed_at
            rec["fault"] = f
            rec["fail_clk"] = self.clock() if self.clock else 0
            code, msg, status, _ = FAULT_CLASSES[f["class"]]
            raise ServiceFault(code, msg, status)
        if s is not None:
            s.yield_point("api")
        rec["t_end"] = s.now if s else b.now
        rec["done"] = True
        rec["clk_end"] = self.clock() if self.clock else 0
        try:
            ops_out = (out.get("NewExecutionState") or {}).get("Operations") if kind == "checkpoint" else out.get("Operations")
            rec["told"] = {o["Id"]: o["Status"] for o in (ops_out or []) if o.get("Status") in TERMINAL}
        except Exception:  # noqa: BLE001 - deliberately malformed responses
            rec["told"] = {}
        return out

    def checkpoint_durable_execution(self, DurableExecutionArn, CheckpointToken, Updates, **kw):  # noqa: N803
        rec = {"token": CheckpointToken, "updates": list(Updates)}
        return self._call("checkpoint", lambda: self.b.checkpoint(CheckpointToken, list(Updates), len(self.b.api) - 1), rec)

    def get_durable_execution_state(self, DurableExecutionArn, CheckpointToken, Marker, MaxItems=1000):  # noqa: N803
        rec = {"token": CheckpointToken, "marker": Marker}
        return self._call("get_state", lambda: self.b.get_state(Marker), rec)
