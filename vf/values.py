"""Value domain of the default serializer: strategy, type-aware equality, tagged-JSON form.

The tagged-JSON form lets a generated value (bytes, Decimal, tuple, NaN, lone
surrogates, BatchResult, ...) be written to a replay/evidence file and read back
exactly, independently of the SDK's own codec (which is the thing under test).
"""
from __future__ import annotations

import base64
import datetime as dt
import math
import uuid
from decimal import Decimal
from typing import Any

from hypothesis import strategies as st

from . import ensure_repo_on_path

ensure_repo_on_path()

from aws_durable_execution_sdk_python.concurrency.models import (  # noqa: E402
    BatchItem,
    BatchItemStatus,
    BatchResult,
    CompletionReason,
)
from aws_durable_execution_sdk_python.lambda_service import ErrorObject  # noqa: E402

# --------------------------------------------------------------------------- equality


def teq(a: Any, b: Any) -> bool:
    """Type-aware structural equality: same Python type at every level, NaN == NaN,
    -0.0 != 0.0, Decimals by as_tuple()."""
    if type(a) is not type(b):
        return False
    if isinstance(a, float):
        if math.isnan(a) or math.isnan(b):
            return math.isnan(a) and math.isnan(b)
        return a == b and math.copysign(1.0, a) == math.copysign(1.0, b)
    if isinstance(a, Decimal):
        return a.as_tuple() == b.as_tuple()
    if isinstance(a, (list, tuple)):
        return len(a) == len(b) and all(teq(x, y) for x, y in zip(a, b))
    if isinstance(a, dict):
        if len(a) != len(b):
            return False
        # compare keys by (type, value) too
        ka = sorted(((type(k).__name__, repr(k)) for k in a))
        kb = sorted(((type(k).__name__, repr(k)) for k in b))
        if ka != kb:
            return False
        return all(k in b and teq(v, b[k]) for k, v in a.items())
    if isinstance(a, BatchResult):
        return (
            a.completion_reason is b.completion_reason
            and len(a.all) == len(b.all)
            and all(teq(x, y) for x, y in zip(a.all, b.all))
        )
    if isinstance(a, BatchItem):
        return (
            a.index == b.index
            and type(a.index) is type(b.index)
            and a.status is b.status
            and teq(a.result, b.result)
            and teq(a.error, b.error)
        )
    if isinstance(a, ErrorObject):
        return (
            teq(a.message, b.message)
            and teq(a.type, b.type)
            and teq(a.data, b.data)
            and teq(a.stack_trace, b.stack_trace)
        )
    if isinstance(a, dt.datetime):
        # equal instants with equal utcoffset (tzinfo class may differ: the codec restores timezone())
        return a == b and a.utcoffset() == b.utcoffset() and (a.tzinfo is None) == (b.tzinfo is None)
    return a == b


# --------------------------------------------------------------------------- tagged JSON


def to_tagged(v: Any) -> Any:
    if v is None or isinstance(v, (bool, str)) and _plain_str(v):
        return v
    if isinstance(v, bool):
        return v
    if isinstance(v, str):
        return {"$": "str", "v": [ord(c) for c in v]}
    if isinstance(v, int):
        return v if abs(v) < 2**53 else {"$": "int", "v": str(v)}
    if isinstance(v, float):
        if math.isnan(v) or math.isinf(v) or (v == 0 and math.copysign(1, v) < 0):
            return {"$": "float", "v": repr(v)}
        return {"$": "float", "v": v.hex()}
    if isinstance(v, bytes):
        return {"$": "bytes", "v": base64.b64encode(v).decode()}
    if isinstance(v, uuid.UUID):
        return {"$": "uuid", "v": str(v)}
    if isinstance(v, Decimal):
        return {"$": "decimal", "v": str(v)}
    if isinstance(v, dt.datetime):
        off = v.utcoffset()
        return {
            "$": "datetime",
            "v": [v.year, v.month, v.day, v.hour, v.minute, v.second, v.microsecond, v.fold],
            "off": None if off is None else [off.days, off.seconds, off.microseconds],
        }
    if isinstance(v, dt.date):
        return {"$": "date", "v": [v.year, v.month, v.day]}
    if isinstance(v, list):
        return [to_tagged(x) for x in v]
    if isinstance(v, tuple):
        return {"$": "tuple", "v": [to_tagged(x) for x in v]}
    if isinstance(v, dict):
        return {"$": "dict", "v": [[to_tagged(k), to_tagged(x)] for k, x in v.items()]}
    if isinstance(v, (set, frozenset)):
        return {"$": "set", "v": [to_tagged(x) for x in sorted(v, key=repr)]}
    if isinstance(v, BatchResult):
        return {
            "$": "batch",
            "reason": v.completion_reason.value,
            "items": [
                {
                    "index": i.index,
                    "status": i.status.value,
                    "result": to_tagged(i.result),
                    "error": None
                    if i.error is None
                    else [to_tagged(i.error.message), to_tagged(i.error.type), to_tagged(i.error.data), to_tagged(i.error.stack_trace)],
                }
                for i in v.all
            ],
        }
    if isinstance(v, Opaque):
        return {"$": "opaque"}
    return {"$": "repr", "v": repr(v)}


def _plain_str(s: Any) -> bool:
    if not isinstance(s, str):
        return True
    try:
        s.encode("utf-8")
        return True
    except UnicodeEncodeError:
        return False


class Opaque:
    """An object no serializer can know (member of the reject set)."""

    def __eq__(self, other):
        return isinstance(other, Opaque)

    def __hash__(self):
        return 7

    def __repr__(self):
        return "Opaque()"


def from_tagged(j: Any) -> Any:
    if j is None or isinstance(j, (bool, int, str)):
        return j
    if isinstance(j, float):
        return j
    if isinstance(j, list):
        return [from_tagged(x) for x in j]
    t = j["$"]
    if t == "str":
        return "".join(chr(c) for c in j["v"])
    if t == "int":
        return int(j["v"])
    if t == "float":
        s = j["v"]
        if s in ("nan", "inf", "-inf", "-0.0"):
            return float(s)
        return float.fromhex(s)
    if t == "bytes":
        return base64.b64decode(j["v"])
    if t == "uuid":
        return uuid.UUID(j["v"])
    if t == "decimal":
        return Decimal(j["v"])
    if t == "datetime":
        y, mo, d, h, mi, s, us, fold = j["v"]
        tz = None
        if j["off"] is not None:
            tz = dt.timezone(dt.timedelta(days=j["off"][0], seconds=j["off"][1], microseconds=j["off"][2]))
        return dt.datetime(y, mo, d, h, mi, s, us, tzinfo=tz, fold=fold)
    if t == "date":
        return dt.date(*j["v"])
    if t == "tuple":
        return tuple(from_tagged(x) for x in j["v"])
    if t == "dict":
        return {_hashable(from_tagged(k)): from_tagged(x) for k, x in j["v"]}
    if t == "set":
        return frozenset(from_tagged(x) for x in j["v"])
    if t == "batch":
        items = []
        for i in j["items"]:
            err = None
            if i["error"] is not None:
                e = [from_tagged(x) for x in i["error"]]
                err = ErrorObject(message=e[0], type=e[1], data=e[2], stack_trace=e[3])
            items.append(BatchItem(i["index"], BatchItemStatus(i["status"]), from_tagged(i["result"]), err))
        return BatchResult(items, CompletionReason(j["reason"]))
    if t == "opaque":
        return Opaque()
    raise ValueError(f"unknown tag {t}")


def _hashable(k):
    return tuple(k) if isinstance(k, list) else k


# --------------------------------------------------------------------------- strategies

TAGS = ["n", "s", "i", "f", "b", "B", "u", "d", "dt", "D", "t", "l", "m", "br"]

_text = st.one_of(
    st.text(max_size=12),
    st.text(alphabet=st.characters(), max_size=6),  # includes surrogates
    st.sampled_from(["", "t", "v", "$", "null", "true", "1", "\ud800", "\udfff\ud800", "a\x00b", "é", "\U0001F600"]),
)

_ints = st.one_of(
    st.integers(-10, 10),
    st.integers(),
    st.sampled_from([2**53, 2**53 + 1, -(2**63), 2**64, 10**30, -(10**40), 2**200]),
)

_floats = st.one_of(
    st.floats(allow_nan=True, allow_infinity=True),
    st.sampled_from([0.0, -0.0, 1e308, 5e-324, float("inf"), float("-inf"), float("nan"), 0.1, 1e16, 1.0]),
)

_decimals = st.one_of(
    st.decimals(allow_nan=True, allow_infinity=True),
    st.sampled_from(
        [Decimal("0"), Decimal("-0"), Decimal("0.00"), Decimal("1E+5"), Decimal("1e-30"), Decimal("NaN"), Decimal("sNaN"), Decimal("-Infinity"), Decimal("123.4500")]
    ),
)

_tz = st.one_of(
    st.none(),
    st.just(dt.timezone.utc),
    st.builds(
        lambda m: dt.timezone(dt.timedelta(minutes=m)),
        st.integers(-23 * 60 - 59, 23 * 60 + 59),
    ),
    st.builds(
        lambda s, us: dt.timezone(dt.timedelta(seconds=s, microseconds=us)),
        st.integers(-86399, 86399),
        st.sampled_from([0, 0, 1, 500000, 999999]),
    ),
)

_datetimes = st.builds(
    lambda d, tz, fold: d.replace(tzinfo=tz, fold=fold),
    st.datetimes(min_value=dt.datetime(1, 1, 2), max_value=dt.datetime(9999, 12, 30)),
    _tz,
    st.sampled_from([0, 0, 0, 1]),
)

leaf = st.one_of(
    st.none(),
    st.booleans(),
    _ints,
    _floats,
    _text,
    st.binary(max_size=16),
    st.uuids(),
    _decimals,
    _datetimes,
    st.dates(),
)

_simple_leaf = st.one_of(st.none(), st.booleans(), st.integers(-5, 5), st.text(max_size=4), st.floats(allow_nan=False, width=32))

_keys = st.one_of(
    st.text(max_size=6),
    st.sampled_from(["t", "v", "$", "", "all", "completionReason", "index", "status", "result", "error"]),
)


def _error_objects():
    opt_text = st.one_of(st.none(), st.text(min_size=1, max_size=8))
    return st.builds(
        ErrorObject,
        message=opt_text,
        type=opt_text,
        data=opt_text,
        stack_trace=st.one_of(st.none(), st.lists(st.text(max_size=6), min_size=1, max_size=3)),
    ).filter(lambda e: any(x is not None for x in (e.message, e.type, e.data, e.stack_trace)))


def _batch_results(children):
    def item(idx, status, res, err):
        if status is BatchItemStatus.SUCCEEDED:
            return BatchItem(idx, status, res, None)
        if status is BatchItemStatus.FAILED:
            return BatchItem(idx, status, None, err)
        return BatchItem(idx, status, None, None)

    items = st.lists(
        st.builds(item, st.integers(0, 5), st.sampled_from(list(BatchItemStatus)), children, _error_objects()),
        max_size=4,
    ).map(lambda xs: [BatchItem(i, x.status, x.result, x.error) for i, x in enumerate(xs)])
    return st.builds(BatchResult, items, st.sampled_from(list(CompletionReason)))


def _lookalikes(children):
    """User data that looks like the codec's own envelope."""
    return st.one_of(
        st.fixed_dictionaries({"t": st.sampled_from(TAGS + ["x", ""]), "v": children}),
        st.fixed_dictionaries({"t": st.sampled_from(TAGS), "v": children, "extra": children}),
        st.fixed_dictionaries({"t": children}),
        st.fixed_dictionaries({"v": children}),
        st.builds(lambda t, v: [{"t": t, "v": v}], st.sampled_from(TAGS), children),
        st.builds(lambda t, v: ({"t": t, "v": v},), st.sampled_from(TAGS), children),
    )


def _extend(children):
    return st.one_of(
        st.lists(children, max_size=4),
        st.lists(children, max_size=4).map(tuple),
        st.dictionaries(_keys, children, max_size=4),
        _lookalikes(children),
        _batch_results(children),
    )


#: the accepted grammar (the serializer's exact round-trip domain per C15)
accepted_values = st.recursive(leaf, _extend, max_leaves=14)

#: small JSON-ish values for workflow programs (cheap, still typed)
small_values = st.recursive(
    st.one_of(_simple_leaf, st.binary(max_size=3), st.sampled_from([Decimal("1.50"), Decimal("1.2E+3"), (1, "a"), uuid.UUID(int=7)])),
    lambda c: st.one_of(st.lists(c, max_size=3), st.lists(c, max_size=2).map(tuple), st.dictionaries(st.text(max_size=3), c, max_size=3)),
    max_leaves=5,
)

# ---- reject set: values that cannot be reproduced exactly ---------------------------------

_bad_keys = st.one_of(
    st.integers(-3, 300),
    st.booleans(),
    st.none(),
    st.floats(allow_nan=False, allow_infinity=False, width=16),
    st.binary(max_size=3),
    st.tuples(st.integers(0, 3)),
    st.uuids(),
    st.dates(),
)


def _with_bad_key(children):
    return st.builds(
        lambda good, k, v: {**good, k: v},
        st.dictionaries(st.text(max_size=3), children, max_size=2),
        _bad_keys,
        children,
    )


_reject_leaf = st.one_of(
    _with_bad_key(_simple_leaf),
    st.frozensets(st.integers(0, 5), max_size=3),
    st.sets(st.text(max_size=2), max_size=2),
    st.just(Opaque()),
    st.just(1 + 2j),
)


def _embed(bad):
    """Place one unrepresentable value somewhere inside accepted structure."""
    good = _simple_leaf
    return st.recursive(
        bad,
        lambda c: st.one_of(
            st.builds(lambda a, x, b: [*a, x, *b], st.lists(good, max_size=2), c, st.lists(good, max_size=2)),
            st.builds(lambda a, x: (*a, x), st.lists(good, max_size=2), c),
            st.builds(lambda d, k, x: {**d, k: x}, st.dictionaries(st.text(max_size=3), good, max_size=2), st.text(max_size=3), c),
            st.builds(
                lambda x: BatchResult([BatchItem(0, BatchItemStatus.SUCCEEDED, x, None)], CompletionReason.ALL_COMPLETED), c
            ),
        ),
        max_leaves=3,
    )


rejected_values = _embed(_reject_leaf)


def depth(v: Any) -> int:
    if isinstance(v, (list, tuple, set, frozenset)):
        return 1 + max((depth(x) for x in v), default=0)
    if isinstance(v, dict):
        return 1 + max((depth(x) for x in v.values()), default=0)
    if isinstance(v, BatchResult):
        return 2 + max((depth(i.result) for i in v.all), default=0)
    return 0


def has_extended(v: Any) -> bool:
    if isinstance(v, (bytes, uuid.UUID, Decimal, dt.date, tuple, BatchResult)):
        return True
    if isinstance(v, (list, set, frozenset)):
        return any(has_extended(x) for x in v)
    if isinstance(v, dict):
        return any(has_extended(x) for x in v.values())
    return False


def shape(v: Any) -> Any:
    """Structure-only fingerprint used for distinctness counting."""
    if isinstance(v, (list, tuple)):
        return [type(v).__name__, [shape(x) for x in v[:6]]]
    if isinstance(v, dict):
        return ["dict", [[k if k in ("t", "v") else "k", shape(x)] for k, x in list(v.items())[:6]]]
    if isinstance(v, BatchResult):
        return ["br", [[i.status.value, shape(i.result)] for i in v.all]]
    if isinstance(v, float):
        return "nan" if math.isnan(v) else "inf" if math.isinf(v) else "float"
    return type(v).__name__
