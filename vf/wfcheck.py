"""Glue between workflow-based property modules and the runner: run a generated case, judge it with the
monitors, report the property's own violations, keep distribution counters, minimise failing cases (ddmin)."""
from __future__ import annotations

import copy
import json
import traceback

from hypothesis import HealthCheck, Phase, given, seed, settings

from . import detsched as D
from .monitors import analyse
from .wfrun import run_execution


def execute(case: dict, extra_monitors=()):
    run = run_execution(case)
    analyse(run, case)
    for m in extra_monitors:
        m(run, case)
    return run


def own(run, props) -> list[dict]:
    seen = set()
    out = []
    for v in run.violations:
        if v["property"] in props and (v["kind"], v["site"]) not in seen:
            seen.add((v["kind"], v["site"]))
            out.append(v)
    return out


def replay_case(case: dict, props, extra_monitors=()) -> list[dict]:
    run = execute(case, extra_monitors)
    return [{"kind": v["kind"], "site": v["site"], "detail": v["detail"]} for v in own(run, props)]


def freeze_schedule(case: dict, run) -> dict:
    """Replace the chooser specs by the recorded decision traces so that the replay is exact."""
    c = copy.deepcopy(case)
    specs = case.get("sched") or []
    frozen = []
    for i, inv in enumerate(run.invocations):
        spec = specs[i] if i < len(specs) else None
        if spec and spec.get("mode") == "linepreempt":
            frozen.append(spec)  # deterministic by itself, and it carries what a decision trace cannot: the stall
        else:
            frozen.append({"mode": "trace", "choices": inv.get("trace", [])})
    c["sched"] = frozen or case.get("sched")
    return c


def basic_classes(run, case):
    invs = run.invocations
    cl = []
    if len(invs) >= 2:
        cl.append("inv>=2")
    if len(invs) >= 4:
        cl.append("inv>=4")
    if any(i.get("outcome") == "crashed" for i in invs):
        cl.append("crashed")
    if any(i.get("outcome") == "raised" for i in invs):
        cl.append("raised")
    if any(i.get("outcome") in ("deadlock", "time_cap") for i in invs):
        cl.append("hang")
    if run.final is not None:
        cl.append("final:" + run.final["status"])
    else:
        cl.append("final:none")
    if any(i.get("switches", 0) > 20 for i in invs):
        cl.append("switches>20")
    if (case.get("backend") or {}).get("page_size") or (case.get("backend") or {}).get("first_page") is not None:
        cl.append("paged")
    if (case.get("backend") or {}).get("prune_children"):
        cl.append("pruned-history")
    if case.get("line"):
        cl.append("line-mode")
    return cl


def run_generated(ctx, strategy, props, *, n_cases, nontrivial, classes=None, extra_monitors=(), seed_offset=0, sample_of=None, pair=None):
    """Draw cases, execute, judge. `nontrivial(run, case)` returns a shape key or None."""

    @seed(ctx.seed + seed_offset)
    @settings(max_examples=n_cases, database=None, deadline=None, phases=[Phase.generate],
              suppress_health_check=list(HealthCheck), report_multiple_bugs=False)
    @given(strategy)
    def t(case):
        report_case(ctx, case, props, nontrivial=nontrivial, classes=classes, extra_monitors=extra_monitors, sample_of=sample_of, pair=pair)

    t()


def report_case(ctx, case, props, *, nontrivial, classes=None, extra_monitors=(), sample_of=None, pair=None):
    try:
        run = execute(case, extra_monitors)
    except D.HarnessError:
        raise
    key = nontrivial(run, case)
    cl = basic_classes(run, case) + (classes(run, case) if classes else [])
    sample = None
    if key is not None:
        sample = sample_of(run, case) if sample_of else {"case": _compact(case), "invocations": [i.get("outcome") for i in run.invocations],
                                                         "final": (run.final or {}).get("status")}
    ctx.case(nontrivial_key=key, classes=cl, sample=sample)
    if any(i.get("outcome") == "step_cap" or i.get("slow_but_progressing") for i in run.invocations):
        ctx.inconclusive += 1
    vs = own(run, props)
    other = {v["property"] for v in run.violations if v["property"] not in props}
    for p in other:
        ctx.histogram["signal-for-" + p] += 1
    if vs:
        frozen = freeze_schedule(case, run)
        for v in vs:
            ctx.violation(v["kind"], v["site"], v["detail"], frozen)
    if pair is not None:
        pair(ctx, run, case)
    return run


def line_preempt_sweep(ctx, base, props, *, nontrivial, classes=None, extra_monitors=(), inv=0, kinds=("line",), limit=600, label="sweep", order="low", stall=0.0):
    """One run per executed line-level yield point of invocation `inv`: the task executing that point is preempted for as
    long as anything else can run. `base` must carry "line": [...modules...]. Returns (runs, complete)."""
    k = 0
    total = None
    runs = 0
    stride = 1
    while (total is None or k < total) and runs < limit + 1:
        sched = [{"mode": "seq"}] * inv + [{"mode": "linepreempt", "k": k, "kinds": list(kinds), "order": order, **({"stall": stall} if stall else {})}]
        case = {**copy.deepcopy(base), "sched": sched}
        run = report_case(ctx, case, props, nontrivial=nontrivial, classes=classes, extra_monitors=extra_monitors)
        rec = run.invocations[inv] if len(run.invocations) > inv else None
        first = total is None
        total = (rec or {}).get("line_yields") or 0
        runs += 1
        if first and total > limit:
            # more executed lines than the budget allows: sample them uniformly (every stride-th line, offset by the
            # seed) instead of sweeping only the beginning of the invocation
            stride = -(-total // limit)
            k = ctx.seed % stride
        else:
            k += stride
    ctx.extra.setdefault("enumerations", {})[label] = {"schedules": runs, "lines": total, "stride": stride, "complete": total is not None and stride == 1 and k >= total}
    return runs, (total is not None and stride == 1 and k >= total)


def enumerate_faults(ctx, base, props, *, nontrivial, classes=None, extra_monitors=(), fault_classes=("server5xx", "client4xx"), whens=("before", "after"),
                     max_inv=3, max_api=8, limit=200):
    """Run `base` (with whatever crash plan it carries) fault-free, then once per (invocation, API call, error class,
    request-lost/response-lost) of that run with exactly that call failing. Returns the number of faulted runs."""
    free = {**base, "plan": {**(base.get("plan") or {}), "faults": []}}
    r0 = report_case(ctx, free, props, nontrivial=nontrivial, classes=classes, extra_monitors=extra_monitors)
    n = 0
    for inv in r0.invocations[:max_inv]:
        for i in range(min(inv.get("api_calls", 0), max_api)):
            for cls in fault_classes:
                for when in whens:
                    if n >= limit:
                        return n
                    f = {"inv": inv["inv"], "api": i, "class": cls, "when": when}
                    report_case(ctx, {**free, "plan": {**free["plan"], "faults": [f]}}, props, nontrivial=nontrivial, classes=classes, extra_monitors=extra_monitors)
                    n += 1
    return n


def _compact(case):
    c = {k: v for k, v in case.items() if k in ("prog", "backend", "plan", "sched", "line")}
    s = json.dumps(c, default=repr)
    if len(s) > 3000:
        return {"prog_shape": "large", "len": len(s), "plan": case.get("plan"), "backend": case.get("backend")}
    return c


# ----------------------------------------------------------------------------- minimisation (ddmin over the case)


def minimise_case(entry: dict, props, extra_monitors=(), budget_runs: int = 150, shrink_prog: bool = True) -> dict:
    """Greedy structural shrinking: drop statements / branches / crashes / faults / schedule directives while the
    same (kind, site) is still reported."""
    sig = (entry["kind"], entry["site"])
    runs = [0]

    def still(c):
        runs[0] += 1
        try:
            return any((v["kind"], v["site"]) == sig for v in replay_case(c, props, extra_monitors))
        except Exception:  # noqa: BLE001
            return False

    case = entry["case"]
    if not still(case):
        return entry
    changed = True
    while changed and runs[0] < budget_runs:
        changed = False
        for cand in _shrink_candidates(case, shrink_prog):
            if runs[0] >= budget_runs:
                break
            if still(cand):
                case = cand
                changed = True
                break
    vs = [v for v in replay_case(case, props, extra_monitors) if (v["kind"], v["site"]) == sig]
    return {**entry, "case": case, "detail": vs[0]["detail"] if vs else entry["detail"]}


def _shrink_candidates(case, shrink_prog=True):
    c = case
    # simpler schedules / backend first
    if c.get("line"):
        yield {**c, "line": []}
    sched = c.get("sched") or []
    if any(s.get("mode") != "seq" or s.get("preempt") for s in sched):
        yield {**c, "sched": [{"mode": "seq"}]}
    b = c.get("backend") or {}
    for k, v in (("page_size", None), ("first_page", None), ("prune_children", False), ("timer_lag", 0.0), ("response", "delta")):
        if k in (c.get("keep_backend") or ()):
            continue  # the property's oracle is only defined for this backend behaviour
        if b.get(k) not in (v, None) or (k == "first_page" and b.get(k) is not None):
            yield {**c, "backend": {**b, k: v}}
    plan = c.get("plan") or {}
    for key in ("crashes", "faults", "external"):
        lst = plan.get(key) or []
        for i in range(len(lst)):
            yield {**c, "plan": {**plan, key: lst[:i] + lst[i + 1:]}}
    # drop statements anywhere (not for cases whose oracle carries per-branch ground truth next to the program)
    if not shrink_prog:
        return
    for prog in _drop_stmt(c["prog"]):
        yield {**c, "prog": prog}


def _drop_stmt(prog):
    body = prog["body"]
    for i in range(len(body)):
        yield {**prog, "body": body[:i] + body[i + 1:]}
    for i, s in enumerate(body):
        for s2 in _shrink_stmt(s):
            yield {**prog, "body": body[:i] + [s2] + body[i + 1:]}


def _shrink_stmt(s):
    op = s["op"]
    if op == "child":
        for b in _drop_block(s["body"]):
            yield {**s, "body": b}
    elif op == "parallel":
        brs = s["branches"]
        if len(brs) > 1:
            for i in range(len(brs)):
                yield {**s, "branches": brs[:i] + brs[i + 1:]}
        for i, br in enumerate(brs):
            for b in _drop_block(br):
                if b:
                    yield {**s, "branches": brs[:i] + [b] + brs[i + 1:]}
    elif op == "map":
        if len(s["items"]) > 1:
            yield {**s, "items": s["items"][:-1]}
        for b in _drop_block(s["body"]):
            if b:
                yield {**s, "body": b}
    elif op == "callback":
        for b in _drop_block(s.get("between", [])):
            yield {**s, "between": b}
    elif op == "try":
        yield s["body"]
        for b in _drop_block(s.get("handler", [])):
            yield {**s, "handler": b}
    elif op == "step":
        if s.get("yields"):
            yield {**s, "yields": 0}


def _drop_block(block):
    for i in range(len(block)):
        yield block[:i] + block[i + 1:]
    for i, st in enumerate(block):
        for s2 in _shrink_stmt(st):
            yield block[:i] + [s2] + block[i + 1:]
