"""E3 wfgen - Hypothesis strategies for workflow programs, plans, backend configurations and schedules."""
from __future__ import annotations

from hypothesis import strategies as st

from .values import small_values, to_tagged

ERRS = ["UserError", "OtherUserError", "ValueError"]

json_values = st.recursive(
    st.one_of(st.none(), st.booleans(), st.integers(-5, 5), st.text(max_size=4)),
    lambda c: st.one_of(st.lists(c, max_size=3), st.dictionaries(st.text(max_size=3), c, max_size=3)),
    max_leaves=4,
)


def tagged_values(json_only=False):
    return (json_values if json_only else small_values).map(to_tagged)


def retry_specs(max_attempts=4):
    return st.one_of(
        st.just({"kind": "none"}),
        st.builds(
            lambda m, d, nr, di: {"kind": "table", "max": m, "delays": d, "nonretry": nr, **({"direct": True} if di else {})},
            st.integers(1, max_attempts),
            st.lists(st.integers(0, 6), min_size=1, max_size=3),
            st.sampled_from([[], [], ["OtherUserError"]]),
            st.sampled_from([False, False, True]),
        ),
    )


def step_behaviours(values, allow_fail=True, deterministic=False, fresh=False):
    opts = [st.builds(lambda v: {"kind": "ret", "v": v}, values)]
    if fresh:
        opts += [st.just({"kind": "ticket"})] * 2
    if allow_fail and deterministic:
        opts += [
            st.builds(lambda k, e, v: {"kind": "fail_by_attempt", "k": k, "err": e, "v": v}, st.integers(1, 3), st.sampled_from(ERRS), values),
            st.builds(lambda e, m: {"kind": "always_fail", "err": e, "msg": m}, st.sampled_from(ERRS), st.sampled_from(["boom", "nope", "x y", ""])),
        ]
    elif allow_fail:
        opts += [
            st.builds(lambda k, e, v: {"kind": "fail_then_ret", "k": k, "err": e, "v": v}, st.integers(1, 3), st.sampled_from(ERRS), values),
            st.builds(lambda e, m: {"kind": "always_fail", "err": e, "msg": m}, st.sampled_from(ERRS), st.sampled_from(["boom", "nope", "x y", ""])),
        ]
    return st.one_of(*opts)


def steps(values=None, *, allow_fail=True, sems=("least", "most"), allow_json_serdes=False, logs=False, deterministic=False, fresh=False):
    values = tagged_values() if values is None else values
    return st.builds(
        lambda beh, sem, retry, y, sl, mu: {"op": "step", "beh": beh, "sem": sem, "retry": retry, "yields": y, **({"sleep": sl} if sl else {}), **({"mutate": True} if mu else {})},
        step_behaviours(values, allow_fail, deterministic, fresh),
        st.sampled_from(list(sems)),
        retry_specs() if allow_fail else st.just({"kind": "none"}),
        st.sampled_from([0, 0, 1, 2]),
        st.sampled_from([0, 0, 0, 0.1, 0.2, 0.3]),
        st.sampled_from([False, False, True]),
    )


def waits(max_secs=8):
    return st.builds(lambda s: {"op": "wait", "secs": s}, st.integers(1, max_secs))


def completion_cfgs(n):
    return st.one_of(
        st.none(),
        st.sampled_from(["first_successful", "all_completed", "all_successful"]),
        st.builds(
            lambda mn, tol, pct: {"min": mn, "tol": tol, "pct": pct},
            st.one_of(st.none(), st.integers(1, max(1, n))),
            st.one_of(st.none(), st.integers(0, n)),
            st.one_of(st.none(), st.sampled_from([0, 25, 50, 100])),
        ),
    )


def programs(  # noqa: PLR0913
    *,
    max_stmts=6,
    depth=2,
    features=("step", "wait", "child", "parallel", "map", "callback", "wfcb", "invoke", "wfcond", "try", "sleep"),
    allow_fail=True,
    sems=("least", "most"),
    early_completion=False,
    logs=False,
    deterministic=False,
    wfcond_fail=False,
    wait_all=False,
    fresh=False,
):
    vals = tagged_values()
    leafs = []
    if "step" in features:
        leafs += [steps(vals, allow_fail=allow_fail, sems=sems, deterministic=deterministic, fresh=fresh)] * 3
    if "wait" in features:
        leafs.append(waits())
    if "invoke" in features:
        leafs.append(st.builds(lambda p, t: {"op": "invoke", "fn": "target-fn", "payload": p, "tenant": t}, json_values, st.sampled_from([None, None, "ten"])))
    if "wfcond" in features:
        leafs.append(wfconds(fail=wfcond_fail))
    if "wfcb" in features:
        leafs.append(st.just({"op": "wfcb"}))
    if "sleep" in features:
        leafs.append(st.builds(lambda x: {"op": "sleep", "secs": x}, st.sampled_from([0.05, 0.15, 0.15, 0.3])))
    if logs:
        leafs.append(st.builds(lambda t: {"op": "log", "tag": t}, st.integers(0, 10**6).map(lambda n: f"L{n}")))
    leaf = st.one_of(*leafs)

    def extend(children):
        block = st.lists(children, min_size=1, max_size=3)
        opts = []
        if "child" in features:
            opts.append(st.builds(lambda b: {"op": "child", "body": b}, block))
        if "parallel" in features:
            # a branch that parks on a short timer next to a sibling that is still running when the timer fires:
            # the executor's timer thread then re-runs the parked branch inside the same invocation
            resub = st.builds(
                lambda pre, w, post, slow_sleep, comp_all: {
                    "op": "parallel",
                    "branches": [[pre, w, post], [{"op": "step", "beh": {"kind": "ret", "v": 7}, "sem": "least", "retry": {"kind": "none"}, "sleep": slow_sleep}]],
                    "cfg": {"max_concurrency": None, "completion": {"min": None, "tol": 2, "pct": None}}},
                st.one_of(steps(vals, allow_fail=False, sems=sems), steps(vals, allow_fail=False, sems=sems),
                          # a child context whose result is oversized under a patched checkpoint limit (re-traversed, not replayed, when the branch is re-run)
                          st.builds(lambda s_, pad: {"op": "child", "body": [s_], "pad": pad}, steps(vals, allow_fail=False, sems=sems), st.sampled_from([150, 400]))),
                st.one_of(st.just({"op": "wait", "secs": 1}),
                                                                     st.just({"op": "step", "beh": {"kind": "fail_by_attempt", "k": 1, "err": "UserError", "v": 1}, "sem": "least",
                                                                              "retry": {"kind": "table", "max": 3, "delays": [1], "nonretry": []}})),
                steps(vals, allow_fail=False, sems=sems), st.sampled_from([1.5, 2.5, 3.5]), st.booleans())
            opts.append(resub)
            opts.append(
                st.lists(block, min_size=1, max_size=3).flatmap(
                    lambda brs: st.builds(
                        lambda mc, comp, uw: {"op": "parallel", "branches": brs, "cfg": {"max_concurrency": mc, "completion": comp}, **({"unwrap": True} if uw else {})},
                        st.sampled_from([None, None, 1, 2]),
                        st.just({"min": None, "tol": len(brs), "pct": None}) if wait_all
                        else completion_cfgs(len(brs)) if early_completion else st.sampled_from([None, "all_completed"]),
                        st.sampled_from([False, False, True]),
                    )
                )
            )
        if "map" in features:
            opts.append(
                st.builds(
                    lambda items, b, mc, uw: {"op": "map", "items": items, "body": b, **({"unwrap": True} if uw else {}),
                                              "cfg": {"max_concurrency": mc, **({"completion": {"min": None, "tol": len(items), "pct": None}} if wait_all else {})}},
                    st.lists(vals, min_size=1, max_size=3),
                    block,
                    st.sampled_from([None, None, 1]),
                    st.sampled_from([False, False, True]),
                )
            )
        if "callback" in features:
            opts.append(st.builds(lambda b: {"op": "callback", "between": b}, st.lists(children, max_size=2)))
        if "try" in features:
            opts.append(
                st.builds(
                    lambda b, c, h: {"op": "try", "body": b, "catch": c, "handler": h},
                    children,
                    st.sampled_from([["CallableRuntimeError"], ["Exception"], ["CallableRuntimeError", "CallbackError"]]),
                    st.lists(children, max_size=1),
                )
            )
        return st.one_of(*opts) if opts else children

    stmt = st.recursive(leaf, extend, max_leaves=max_stmts) if depth > 0 else leaf
    return st.lists(stmt, min_size=1, max_size=max_stmts).map(lambda b: {"body": b})


def wfconds(max_polls=4, fail=False):
    return st.builds(
        lambda init, decs, trans, fa, un: {"op": "wfcond", "init": init, "decisions": decs + [["stop"]], "trans": trans,
                                           **({"fail_at": fa} if (fail and fa and fa <= len(decs) + 1) else {}),
                                           **({"until": un} if (un is not None and trans in ("append", "count", "dict")) else {})},
        st.sampled_from([to_tagged([]), to_tagged(0), to_tagged({"a": 1}), to_tagged([1, "x"])]),
        st.lists(st.tuples(st.just("continue"), st.integers(0, 5)).map(list), max_size=max_polls - 1),
        st.sampled_from(["append", "append", "count", "dict", "same"]),
        st.sampled_from([None, None, 1, 2]),
        st.sampled_from([None, None, 2, 3, 4]),
    )


def backend_cfgs():
    return st.builds(
        lambda resp, page, first, sp, prune, lag, lat, ep: {"response": resp, "page_size": page, "first_page": first, "state_page": sp, "prune_children": prune, "timer_lag": lag, "api_latency": lat, "empty_page_at": ep},
        st.sampled_from(["delta", "delta", "full"]),
        st.sampled_from([None, None, 1, 2, 5]),
        st.sampled_from([None, None, 0, 1, 3, -1]),
        st.sampled_from([1, 2, 3]),
        st.booleans(),
        st.sampled_from([0.0, 0.0, 0.5, 2.0]),
        st.sampled_from([0.0, 0.0, 0.0, 0.1, 0.2]),
        st.sampled_from([None, None, None, 0, 1]),
    )


def chooser_specs(horizon=600):
    return st.one_of(
        st.just({"mode": "seq"}),
        st.builds(lambda p: {"mode": "seq", "preempt": p}, st.lists(st.tuples(st.integers(1, horizon), st.integers(0, 5)).map(list), min_size=1, max_size=4)),
        st.builds(lambda s, k: {"mode": "walk", "seed": s, "stick": k}, st.integers(0, 2**31), st.sampled_from([0.0, 0.5, 0.9])),
        st.builds(lambda s, d: {"mode": "pct", "seed": s, "depth": d, "horizon": horizon}, st.integers(0, 2**31), st.integers(1, 3)),
    )


def schedules(n=3):
    return st.lists(chooser_specs(), min_size=1, max_size=n)


def crash_plans(max_crashes=2, max_inv=4, max_n=12):
    one = st.builds(
        lambda inv, at, n: {"inv": inv, "at": at, "n": n},
        st.integers(0, max_inv),
        st.sampled_from(["api_before", "api_after", "api_after", "user"]),
        st.integers(0, max_n),
    )
    return st.lists(one, max_size=max_crashes)


def external_plans(paths_outcomes=None):
    return st.just([])


def program_paths(prog):
    """All (path, stmt) pairs of a program AST, using the interpreter's path scheme."""
    out = []

    def one(s, p):
        out.append((p, s))
        op = s["op"]
        if op == "child":
            block(s["body"], p)
        elif op == "parallel":
            for j, br in enumerate(s["branches"]):
                block(br, f"{p}/{j}")
        elif op == "map":
            for j in range(len(s["items"])):
                block(s["body"], f"{p}/{j}")
        elif op == "callback":
            block(s.get("between", []), p + "~")
        elif op == "try":
            one(s["body"], p + "/t")
            block(s.get("handler", []), p + "/h")

    def block(stmts, prefix):
        for i, s in enumerate(stmts):
            one(s, f"{prefix}/{i}")

    block(prog["body"], "root")
    return out


def shape_of(prog) -> list:
    def sh(s):
        op = s["op"]
        if op == "step":
            return ["s", s["beh"]["kind"], s.get("sem"), (s.get("retry") or {}).get("kind")]
        if op == "child":
            return ["c", [sh(x) for x in s["body"]]]
        if op == "parallel":
            return ["p", [[sh(x) for x in b] for b in s["branches"]], (s.get("cfg") or {}).get("completion")]
        if op == "map":
            return ["m", len(s["items"]), [sh(x) for x in s["body"]]]
        if op == "callback":
            return ["cb", [sh(x) for x in s.get("between", [])]]
        if op == "try":
            return ["t", sh(s["body"]), s["catch"]]
        if op == "wfcond":
            return ["wc", len(s["decisions"]), s.get("trans")]
        return [op]

    return [sh(s) for s in prog["body"]]
