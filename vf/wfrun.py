"""E3/E4 - workflow interpreter, execution driver and the monitors (oracles over the recorded history).

A *case* is plain JSON: {"prog": AST, "backend": cfg, "plan": {crashes, faults, external}, "sched": [chooser spec
per invocation...], "line": [module names]}. run_execution(case) runs the real SDK handler, invocation after
invocation, against simbackend under detsched and returns an ExecResult; monitors turn it into violations
[{property, kind, site, detail}].
"""
from __future__ import annotations

import copy
import json
import math
from typing import Any

from . import detsched as D

D.install()

from . import ensure_repo_on_path  # noqa: E402

ensure_repo_on_path()

import aws_durable_execution_sdk_python.concurrency.executor as sdk_executor  # noqa: E402
import aws_durable_execution_sdk_python.concurrency.models as sdk_models  # noqa: E402
import aws_durable_execution_sdk_python.context as sdk_context  # noqa: E402
import aws_durable_execution_sdk_python.state as sdk_state  # noqa: E402
import aws_durable_execution_sdk_python.threading as sdk_threading  # noqa: E402
from aws_durable_execution_sdk_python import exceptions as sdk_exc  # noqa: E402
from aws_durable_execution_sdk_python.concurrency.models import BatchResult  # noqa: E402
from aws_durable_execution_sdk_python.config import (  # noqa: E402
    CallbackConfig,
    ChildConfig,
    CompletionConfig,
    Duration,
    InvokeConfig,
    JitterStrategy,
    MapConfig,
    ParallelConfig,
    StepConfig,
    StepSemantics,
    WaitForCallbackConfig,
)
from aws_durable_execution_sdk_python.execution import durable_execution  # noqa: E402
from aws_durable_execution_sdk_python.retries import RetryDecision, RetryStrategyConfig, create_retry_strategy  # noqa: E402
from aws_durable_execution_sdk_python.serdes import JsonSerDes, SerDes  # noqa: E402
from aws_durable_execution_sdk_python.waits import (  # noqa: E402
    WaitForConditionConfig,
    WaitForConditionDecision,
    WaitStrategyConfig,
    create_wait_strategy,
)

D.rebind_sdk()

from .simbackend import FAULT_CLASSES, TERMINAL, Backend, FakeBoto  # noqa: E402
from .values import from_tagged, teq, to_tagged  # noqa: E402

LINE_MODULES = {"state": sdk_state, "threading": sdk_threading, "executor": sdk_executor, "models": sdk_models, "context": sdk_context}


class UserError(Exception):
    pass


class OtherUserError(Exception):
    pass


def _uexc(e):
    """An exception the generated *user code* raises on purpose: never a harness error, wherever it surfaces."""
    try:
        e.injected_fault = True
    except Exception:  # noqa: BLE001 - exceptions without __dict__
        pass
    return e


USER_ERRORS = {"UserError": UserError, "OtherUserError": OtherUserError, "ValueError": ValueError, "KeyError": KeyError}


class RaisingSerDes(SerDes):
    """A batch-level serializer that cannot serialize the aggregated result (e.g. items of a custom type handled only by
    an item serializer): the map/parallel operation itself then completes with FAIL."""

    def serialize(self, value, ctx):
        raise TypeError("aggregated result is not serializable")

    def deserialize(self, data, ctx):
        raise TypeError("aggregated result is not deserializable")


class FragileSerDes(SerDes):
    """A user serializer with a schema check: faithful (tagged JSON) until the deployment changes at invocation
    `break_inv`, after which payloads written earlier can no longer be read back."""

    def __init__(self, run, break_inv):
        self.run = run
        self.break_inv = break_inv

    def serialize(self, value, ctx):
        return json.dumps({"schema": 1, "v": to_tagged(value)})

    def deserialize(self, data, ctx):
        if self.break_inv is not None and self.run.inv >= self.break_inv:
            raise ValueError("payload written by schema 1 cannot be read by schema 2")
        return from_tagged(json.loads(data)["v"])


class TextSerDes(SerDes):
    """A user serializer for plain text (CSV, a line protocol ...): every string - the empty one included - is a valid
    encoding; decoding wraps the text so that 'decoded empty text' differs from 'no result'."""

    def serialize(self, value, ctx):
        return value[1] if isinstance(value, list) else str(value)

    def deserialize(self, data, ctx):
        return ["text", data]


class _BotoProxy:
    """The service client a warm handler was decorated with: forwards to the current invocation's fake client."""

    def __init__(self, warm):
        self._warm = warm

    def __getattr__(self, name):
        return getattr(self._warm["boto"], name)


class LambdaCtx:
    aws_request_id = "req-1"
    log_group_name = None
    log_stream_name = None
    function_name = "sim"
    memory_limit_in_mb = "128"
    function_version = "1"
    invoked_function_arn = "arn:fn"
    tenant_id = None
    client_context = None
    identity = None

    def get_remaining_time_in_millis(self):
        return 900_000

    def log(self, msg):
        pass


class CapLogger:
    """LoggerInterface capturing records, installed with ctx.set_logger (C17)."""

    def __init__(self, run):
        self.run = run

    def _rec(self, level, msg, args, extra):
        self.run.logs.append({"inv": self.run.inv, "level": level, "msg": str(msg), "extra": dict(extra or {}), "t": self.run.clock()})

    def debug(self, msg, *a, extra=None):
        self._rec("debug", msg, a, extra)

    def info(self, msg, *a, extra=None):
        self._rec("info", msg, a, extra)

    def warning(self, msg, *a, extra=None):
        self._rec("warning", msg, a, extra)

    def error(self, msg, *a, extra=None):
        self._rec("error", msg, a, extra)

    def exception(self, msg, *a, extra=None):
        self._rec("exception", msg, a, extra)


class _LoggingShim:
    """Stands in for the `logging` module inside the SDK's context module: the DEFAULT context logger
    (`logging.getLogger()` looked up when the root context is built, i.e. before user code runs) becomes the capturing
    logger; named loggers and everything else are the real thing."""

    def __init__(self, run, real):
        self._run, self._real = run, real

    def getLogger(self, name=None):  # noqa: N802
        return CapLogger(self._run) if name is None else self._real.getLogger(name)

    def __getattr__(self, k):
        return getattr(self._real, k)


class ExecResult:
    def __init__(self):
        self.invocations: list[dict] = []  # {inv, outcome, status, result, error, raised, sched_outcome, steps, t0, t1, trace}
        self.obs: list[dict] = []  # per durable call
        self.entries: list[dict] = []  # user function entries
        self.exits: list[dict] = []
        self.logs: list[dict] = []
        self.log_calls: list[dict] = []  # every log call made by the program (emitted or not)
        self.strategy_calls: list[dict] = []
        self.polls: list[dict] = []
        self.handovers: list[dict] = []  # create_checkpoint calls seen from the test side
        self.callback_ids: list[dict] = []
        self.violations: list[dict] = []
        self.final = None
        self.backend: Backend | None = None
        self.notes: list[str] = []
        self.inv = 0
        self._clock = 0
        self.active_user: dict = {}
        self.pending_checks: list = []
        self.park_events: list = []

    def clock(self):
        self._clock += 1
        return self._clock

    def v(self, prop, kind, site, detail):
        self.violations.append({"property": prop, "kind": kind, "site": site, "detail": str(detail)[:1500]})


# ----------------------------------------------------------------------------- interpreter


def _jsonable(v):
    return to_tagged(v)


class Interp:
    def __init__(self, case: dict, run: ExecResult, backend: Backend, world: dict):
        self.case = case
        self.prog = case["prog"]
        self.run = run
        self.b = backend
        self.world = world  # persists across invocations: the outside world the user functions talk to
        self.sched = None
        self.boto = None
        self.user_n = 0
        self.plan = case.get("plan") or {}

    # -- helpers ---------------------------------------------------------------------
    def _op_by_path(self, path):
        oid = self.b.by_path.get(path)
        return self.b.ops.get(oid) if oid else None

    def _crash_here(self, at, n):
        for c in self.plan.get("crashes", ()):
            if c.get("inv", 0) == self.run.inv and c["at"] == at and c["n"] == n:
                return True
        return False

    def enter_user(self, path, kind, *, yields=0, sleep=0.0):
        s = self.sched
        if s.aborting:
            raise D.SchedAbort()
        op = self._op_by_path(path)
        t = D.current_task()
        n = self.user_n
        self.user_n += 1
        self.world.setdefault("entries", {})
        self.world["entries"][path] = self.world["entries"].get(path, 0) + 1
        rec = {
            "path": path, "kind": kind, "inv": self.run.inv, "clk": self.run.clock(), "t": s.now, "n": n,
            "status": op["Status"] if op else None, "attempt": op.get("Attempt") if op else None,
            "replay_children": bool(op.get("ReplayChildren")) if op else False, "task": t.id if t else None,
            "entry_no": self.world["entries"][path],
            "under_done": [self.b.path_of.get(a) for a in (self.b.ancestors(op["Id"]) if op else []) if self.b.ops[a]["Status"] in TERMINAL],
        }
        self.run.entries.append(rec)
        key = (path, rec["clk"])
        self.run.active_user[key] = rec
        if self._crash_here("user", n):
            rec["crashed"] = True
            s.crash()
        try:
            for _ in range(yields):
                s.yield_point("user")
            if sleep:
                s.sleep(sleep)
        except BaseException:
            self.run.active_user.pop(key, None)
            raise
        return key

    def exit_user(self, key):
        rec = self.run.active_user.pop(key, None)
        if rec is not None:
            self.run.exits.append({"path": rec["path"], "inv": rec["inv"], "clk": self.run.clock(), "entry_clk": rec["clk"]})

    def durable(self, path, kind, thunk, *, final_error_classes=(Exception,)):
        """Run one durable call, record what it delivered to user code, and apply the write-ahead check (C03)."""
        run = self.run
        op0 = self._op_by_path(path)
        pre = op0["Status"] if op0 else None
        t = D.current_task()
        try:
            v = thunk()
        except sdk_exc.SuspendExecution as e:
            run.obs.append({"path": path, "kind": kind, "inv": run.inv, "clk": run.clock(), "out": "suspend", "pre": pre,
                            "task": t.id if t else None, "timed": getattr(e, "scheduled_timestamp", None), "exc": type(e).__name__, "msg": str(e)[:120],
                            # branch bodies of this very call that are inside user code at the instant it suspends
                            "active_under": sorted({v["path"] for v in run.active_user.values() if v["kind"] == "branch" and v["path"].startswith(path + "/")
                                                    and v["path"].count("/") == path.count("/") + 1}) if kind in ("map", "parallel") else []})
            raise
        except (D.SchedAbort, sdk_exc.BackgroundThreadError, sdk_exc.OrphanedChildException) as e:
            run.obs.append({"path": path, "kind": kind, "inv": run.inv, "clk": run.clock(), "out": "abort", "pre": pre, "exc": type(e).__name__})
            raise
        except Exception as e:  # noqa: BLE001 - delivered to user code
            rec = {"path": path, "kind": kind, "inv": run.inv, "clk": run.clock(), "out": "exc", "pre": pre,
                   "exc": type(e).__name__, "msg": str(e), "etype": getattr(e, "error_type", None), "task": t.id if t else None}
            if not isinstance(e, sdk_exc.DurableExecutionsError) and type(e).__name__ not in USER_ERRORS:
                import traceback as _tb

                rec["tb"] = "".join(_tb.format_exception(type(e), e, e.__traceback__)[-8:])  # diagnostics: where did a foreign exception come from
            run.obs.append(rec)
            self._write_ahead(path, kind, rec, e)
            raise
        rec = {"path": path, "kind": kind, "inv": run.inv, "clk": run.clock(), "out": "value", "pre": pre,
               "value": copy.deepcopy(v) if kind == "step" else v, "task": t.id if t else None}
        run.obs.append(rec)
        self._write_ahead(path, kind, rec, None)
        return v

    def _write_ahead(self, path, kind, rec, exc):
        """C03: at the instant an outcome becomes visible to user code the backend holds the terminal record."""
        if kind in ("create_callback",):
            return
        if exc is not None and isinstance(exc, sdk_exc.StepInterruptedError) and kind == "step":
            pass  # raised only after the retry strategy declined: the step's final failure, recorded before it is raised
        elif exc is not None and isinstance(exc, (sdk_exc.InvocationError, sdk_exc.ValidationError)):
            return  # invocation-level errors are not operation outcomes
        if exc is not None and isinstance(exc, sdk_exc.ExecutionError) and not isinstance(exc, sdk_exc.CallbackError):
            return
        op = self._op_by_path(path)
        st = op["Status"] if op else None
        rec["backend_status"] = st
        if exc is not None and st == "SUCCEEDED" and kind in ("step", "wait", "child", "wfcond", "invoke", "wait_for_callback", "callback_result") and not isinstance(exc, sdk_exc.DurableExecutionsError):
            # the backend holds a SUCCEEDED record for this position, yet the call raised something that is neither
            # the SDK's error for a recorded failure nor an invocation-level error: the recorded outcome was not delivered
            self.run.v("C01", "recorded_outcome_not_delivered", f"{kind}:{type(exc).__name__}",
                       f"{path}: the backend holds SUCCEEDED but the call raised {type(exc).__name__}({str(exc)[:120]!r}); {rec.get('tb', '')[-600:]}")
        if st not in TERMINAL:
            self.run.v("C03", "outcome_visible_before_record", f"{kind}:{'error' if exc else 'result'}",
                       f"{path}: user code received {'exception ' + type(exc).__name__ if exc else 'a result'} while the backend holds status {st}")

    # -- program ---------------------------------------------------------------------
    def handler(self, event, ctx):
        run = self.run
        if self.case.get("caplog") and self.case.get("caplog") != "default":
            ctx.set_logger(CapLogger(run))
        hb = self.prog.get("handler")
        if hb and hb.get("pre_raise"):
            raise USER_ERRORS.get(hb["pre_raise"], UserError)("pre")
        res = self.block(self.prog["body"], ctx, "root")
        if hb and hb.get("raise"):
            raise self._mk_exc(hb["raise"])
        if hb and "return" in hb:
            return self._mk_return(hb["return"], res)
        return _jsonable(res)

    def _mk_exc(self, spec):
        e = _uexc(self._mk_exc0(spec))
        for k, v in (spec.get("attrs") or {}).items():
            # third-party exception classes carry arbitrary attributes (an HTTP error with the raw body in .data, ...)
            setattr(e, k, from_tagged(v))
        return e

    def _mk_exc0(self, spec):
        cls = spec["cls"]
        msg = spec.get("msg", "boom")
        if spec.get("size"):
            msg = "E" * spec["size"]
        table = {
            "ExecutionError": lambda: sdk_exc.ExecutionError(msg),
            "InvocationError": lambda: sdk_exc.InvocationError(msg),
            "CallbackError": lambda: sdk_exc.CallbackError(msg, "cb"),
            "ValidationError": lambda: sdk_exc.ValidationError(msg),
            "StepInterruptedError": lambda: sdk_exc.StepInterruptedError(msg, "s"),
            "CallableRuntimeError": lambda: sdk_exc.CallableRuntimeError(msg, "T", None, None),
            "SerDesError": lambda: sdk_exc.SerDesError(msg),
            "NonDeterministicExecutionError": lambda: sdk_exc.NonDeterministicExecutionError(msg),
            "InvalidStateError": lambda: sdk_exc.InvalidStateError(msg),
            "OrderedLockError": lambda: sdk_exc.OrderedLockError(msg),
            "UserlandError": lambda: sdk_exc.UserlandError(msg),
            "DurableExecutionsError": lambda: sdk_exc.DurableExecutionsError(msg),
        }
        if cls in table:
            return table[cls]()
        if cls in USER_ERRORS:
            return USER_ERRORS[cls](msg)
        import builtins

        c = getattr(builtins, cls, None)
        if isinstance(c, type) and issubclass(c, Exception):
            return c(msg)
        return UserError(msg)

    def _mk_return(self, spec, res):
        k = spec["kind"]
        if k == "json":
            return spec["value"]
        if k == "size":
            return "R" * spec["n"]
        if k == "unicode_size":
            return spec.get("ch", "é") * spec["n"]
        if k == "notjson":
            return {"x": {1, 2}} if spec.get("what") == "set" else object()
        if k == "nan":
            return float("nan")
        if k == "none":
            return None
        return _jsonable(res)

    def block(self, stmts, ctx, prefix):
        out = []
        for i, st in enumerate(stmts):
            out.append(self.stmt(st, ctx, f"{prefix}/{i}"))
        return out

    def stmt(self, st, ctx, path):  # noqa: C901, PLR0911, PLR0912
        op = st["op"]
        if op == "step":
            return self._step(st, ctx, path)
        if op == "wait":
            return self.durable(path, "wait", lambda: ctx.wait(Duration.from_seconds(st["secs"]), name=path))
        if op == "child":
            return self._child(st, ctx, path)
        if op in ("parallel", "map"):
            return self._batch(st, ctx, path)
        if op == "callback":
            return self._callback(st, ctx, path)
        if op == "wfcb":
            return self._wait_for_callback(st, ctx, path)
        if op == "invoke":
            return self._invoke(st, ctx, path)
        if op == "wfcond":
            return self._wfcond(st, ctx, path)
        if op == "log":
            return self._log(st, ctx, path)
        if op == "sleep":
            # plain (non-durable) user computation between durable calls: virtual time passes, batches leave meanwhile
            self.sched.sleep(st["secs"])
            return None
        if op == "try":
            return self._try(st, ctx, path)
        if op == "raise":
            # "from_inv": code that only fails from a later invocation on (a dependency that went away, a deployment
            # that changed) - e.g. while the body of a context recorded with ReplayChildren is run again
            if st.get("from_inv") is None or self.run.inv >= st["from_inv"]:
                raise self._mk_exc(st["exc"])
            return None
        if op == "threads":
            # several user threads issuing operations on the SAME context (the SDK's ordered counter exists for this)
            import threading as _th

            outs: dict = {}
            errs: dict = {}

            def worker(i, stmts):
                try:
                    outs[i] = self.block(stmts, ctx, f"{path}/T{i}")
                except BaseException as e:  # noqa: BLE001
                    errs[i] = e

            ths = [_th.Thread(target=worker, args=(i, b_)) for i, b_ in enumerate(st["bodies"])]
            for t_ in ths:
                t_.start()
            for t_ in ths:
                t_.join()
            for e in errs.values():
                raise e
            return [outs.get(i) for i in range(len(ths))]
        if op == "gate":
            # block (virtually) until the world's gate opens - used to hold a branch inside user code
            g = st["gate"]
            self.sched.block(lambda: self.world.get("gates", {}).get(g, False), st.get("timeout", 30.0), f"gate:{g}")
            return None
        if op == "open":
            self.world.setdefault("gates", {})[st["gate"]] = True
            return None
        raise ValueError(op)

    def _serdes(self, st):
        k = st.get("serdes")
        if k == "json":
            return JsonSerDes()
        if k == "fragile":
            return FragileSerDes(self.run, self.case.get("serdes_break"))
        if k == "passthrough":
            # the SDK's own serializer for values that already are text: every string, the empty one included, is a payload
            from aws_durable_execution_sdk_python.serdes import PassThroughSerDes

            return PassThroughSerDes()
        return None

    # -- step ------------------------------------------------------------------------
    def _retry_strategy(self, spec, path):
        if spec is None:
            return None
        run = self.run
        kind = spec["kind"]
        if kind == "none":
            inner = lambda e, n: RetryDecision.no_retry()  # noqa: E731
        elif kind == "table":
            mx, delays = spec["max"], spec["delays"]
            nonretry = set(spec.get("nonretry", ()))

            def inner(e, n):
                if type(e).__name__ in nonretry or n >= mx:
                    return RetryDecision.no_retry()
                d_ = Duration(seconds=delays[(n - 1) % len(delays)])
                if spec.get("direct"):
                    return RetryDecision(should_retry=True, delay=d_)  # the public dataclass constructor, not the factory
                return RetryDecision.retry(d_)
        elif kind == "config":
            c = spec["cfg"]
            inner = create_retry_strategy(RetryStrategyConfig(
                max_attempts=c["max_attempts"], initial_delay=Duration(seconds=c["initial"]), max_delay=Duration(seconds=c["max_delay"]),
                backoff_rate=c["rate"], jitter_strategy=JitterStrategy(c["jitter"]),
                retryable_errors=c.get("errors"), retryable_error_types=[USER_ERRORS[x] for x in c["types"]] if c.get("types") is not None else None))
        else:
            raise ValueError(kind)

        def strat(e, n):
            d = inner(e, n)
            run.strategy_calls.append({"path": path, "inv": run.inv, "clk": run.clock(), "attempts_made": n, "err": type(e).__name__,
                                       "msg": str(e), "retry": d.should_retry, "delay": d.delay_seconds})
            return d

        return strat

    def _behave(self, beh, path, entry_no, attempt=0):
        k = beh["kind"]
        if k == "ret":
            return from_tagged(beh["v"])
        if k == "fail_by_attempt":
            # deterministic in the *recorded* attempt number: independent of interruptions
            if (attempt or 0) < beh["k"]:
                raise _uexc(USER_ERRORS[beh["err"]](beh.get("msg", "transient")))
            return from_tagged(beh["v"])
        if k == "fail_then_ret":
            if entry_no <= beh["k"]:
                raise _uexc(USER_ERRORS[beh["err"]](beh.get("msg", "transient")))
            return from_tagged(beh["v"])
        if k == "always_fail":
            raise _uexc(USER_ERRORS[beh["err"]](beh.get("msg", "always")))
        if k == "ticket":
            # a genuinely non-deterministic step (draws a number, reads a clock, calls a service): every execution of
            # the function yields another value, so a re-execution is visible wherever the value flows
            n = self.world["ticket"] = self.world.get("ticket", 0) + 1
            return {"ticket": n}
        if k == "big":
            return beh.get("ch", "x") * beh["n"]
        if k == "raise_sdk":
            raise self._mk_exc(beh["exc"])
        if k == "unserializable":
            return {1, 2, 3}
        raise ValueError(k)

    def _step(self, st, ctx, path):
        beh = st["beh"]

        def body(sc):
            key = self.enter_user(path, "step", yields=st.get("yields", 0), sleep=st.get("sleep", 0.0))
            try:
                for tag in st.get("logs", ()):
                    self._emit_log(sc.logger, tag, path, in_step=True)
                att = (self.run.active_user.get(key) or {}).get("attempt") or 0
                return self._behave(beh, path, self.world["entries"][path], att)
            finally:
                self.exit_user(key)

        cfg = StepConfig(
            retry_strategy=self._retry_strategy(st.get("retry", {"kind": "none"}), path),
            step_semantics=StepSemantics.AT_MOST_ONCE_PER_RETRY if st.get("sem") == "most" else StepSemantics.AT_LEAST_ONCE_PER_RETRY,
            serdes=self._serdes(st),
        )
        v = self.durable(path, "step", lambda: ctx.step(body, name=path, config=cfg))
        if st.get("mutate"):
            # user code is free to edit a value it was handed (the recorded outcome must not change with it)
            if isinstance(v, list):
                v.append("local-edit")
            elif isinstance(v, dict):
                v["local-edit"] = True
            elif isinstance(v, (set, bytearray)):
                v.clear()
        return v

    # -- child / batch ---------------------------------------------------------------
    def _child(self, st, ctx, path):
        def fn(c):
            key = self.enter_user(path, "child", yields=st.get("yields", 0))
            try:
                res = self.block(st["body"], c, path)
                if st.get("pad_to"):
                    from aws_durable_execution_sdk_python.serdes import serialize as _ser

                    ser = (lambda v: json.dumps(v)) if st.get("serdes") == "json" else (lambda v: _ser(None, v, "probe", "arn"))
                    base = len(ser({"r": res, "pad": ""}))
                    val = {"r": res, "pad": "p" * max(0, st["pad_to"] - base)}
                    self.world.setdefault("sizes", {})[path] = len(ser(val))
                    return val
                if st.get("pad"):
                    return {"r": res, "pad": "p" * st["pad"]}
                if st.get("raise"):
                    raise self._mk_exc(st["raise"])
                return res
            finally:
                self.exit_user(key)

        cfg = None
        if st.get("summary") or st.get("serdes"):
            cfg = ChildConfig(summary_generator=(lambda r: json.dumps({"summary": True})) if st.get("summary") else None,
                              serdes=self._serdes(st))
        return self.durable(path, "child", lambda: ctx.run_in_child_context(fn, name=path, config=cfg))

    def _completion(self, c):
        if c is None:
            return None
        if isinstance(c, str):
            return {"first_successful": CompletionConfig.first_successful, "all_completed": CompletionConfig.all_completed,
                    "all_successful": CompletionConfig.all_successful}[c]()
        return CompletionConfig(min_successful=c.get("min"), tolerated_failure_count=c.get("tol"), tolerated_failure_percentage=c.get("pct"))

    def _batch(self, st, ctx, path):
        run = self.run
        cfgd = st.get("cfg") or {}
        comp = self._completion(cfgd.get("completion"))
        is_map = st["op"] == "map"
        branches = st["branches"] if not is_map else [st["body"]] * len(st["items"])

        def mk(i):
            def fn(c, *a):
                bpath = f"{path}/{i}"
                key = self.enter_user(bpath, "branch", yields=cfgd.get("branch_yields", 0))
                run.world_active = getattr(run, "world_active", {})
                act = self.world.setdefault("active", {})
                act[path] = act.get(path, 0) + 1
                mx = self.world.setdefault("max_active", {})
                mx[path] = max(mx.get(path, 0), act[path])
                try:
                    res = self.block(branches[i], c, bpath)
                    pad = (st.get("pads") or [0] * (i + 1))[i] if st.get("pads") else 0
                    if pad:
                        return "b" * pad
                    if st.get("unwrap") and len(res) == 1:
                        return res[0]  # the branch function returns its only statement's value itself (e.g. a nested BatchResult)
                    return res
                finally:
                    act[path] -= 1
                    self.exit_user(key)

            return fn

        kw = {}
        if cfgd.get("max_concurrency") is not None:
            kw["max_concurrency"] = cfgd["max_concurrency"]
        if comp is not None:
            kw["completion_config"] = comp
        if cfgd.get("serdes") == "raising":
            kw["serdes"] = RaisingSerDes()
            kw["item_serdes"] = JsonSerDes() if cfgd.get("item_serdes") == "json" else FragileSerDes(self.run, None) if cfgd.get("item_serdes") == "fragile" else None
        if cfgd.get("item_serdes") and "item_serdes" not in kw:
            # a custom serializer for the items only; the BatchResult itself goes through the default one
            kw["item_serdes"] = JsonSerDes() if cfgd["item_serdes"] == "json" else FragileSerDes(self.run, None)
        if cfgd.get("summary") == "none":
            kw["summary_generator"] = None
        elif cfgd.get("summary") == "custom":
            kw["summary_generator"] = lambda r: json.dumps({"n": r.total_count})
        use_cfg = bool(kw) or cfgd.get("explicit")
        if is_map:
            cfg = MapConfig(**kw) if use_cfg else None
            items = [from_tagged(x) for x in st["items"]]
            f0 = [mk(i) for i in range(len(items))]
            return self.durable(path, "map", lambda: ctx.map(items, lambda c, item, idx, all_: f0[idx](c), name=path, config=cfg))
        cfg = ParallelConfig(**kw) if use_cfg else None
        fns = [mk(i) for i in range(len(branches))]
        return self.durable(path, "parallel", lambda: ctx.parallel(fns, name=path, config=cfg))

    # -- callbacks / invoke ----------------------------------------------------------
    def _cb_cfg(self, st, cls=CallbackConfig, **extra):
        if not (st.get("timeout") or st.get("heartbeat") or extra or st.get("serdes")):
            return None
        return cls(timeout=Duration(seconds=st.get("timeout", 0)), heartbeat_timeout=Duration(seconds=st.get("heartbeat", 0)),
                   serdes=self._serdes(st), **extra)

    def _callback(self, st, ctx, path):
        run = self.run
        cb = self.durable(path + "#create", "create_callback", lambda: ctx.create_callback(name=path, config=self._cb_cfg(st)))
        op = self._op_by_path(path)
        run.callback_ids.append({"path": path, "inv": run.inv, "id": cb.callback_id, "backend_id": op.get("CallbackId") if op else None,
                                 "status": op["Status"] if op else None})
        self.world.setdefault("between_runs", {})
        k = (path, run.inv)
        self.world["between_runs"][f"{path}@{run.inv}"] = self.world["between_runs"].get(f"{path}@{run.inv}", 0) + 1
        between = self.block(st.get("between", []), ctx, path + "~")
        v = self.durable(path, "callback_result", lambda: cb.result())
        return [between, v]

    def _wait_for_callback(self, st, ctx, path):
        run = self.run

        def submitter(cbid, wctx):
            key = self.enter_user(path + "#submitter", "submitter")
            try:
                run.callback_ids.append({"path": path, "inv": run.inv, "id": cbid, "via": "submitter"})
                beh = st.get("submit_beh") or {"kind": "ret", "v": None}
                self._behave(beh, path + "#submitter", self.world["entries"][path + "#submitter"])
            finally:
                self.exit_user(key)

        extra = {}
        if st.get("retry") is not None:
            extra["retry_strategy"] = self._retry_strategy(st["retry"], path + "#submitter")
        cfg = self._cb_cfg(st, WaitForCallbackConfig, **extra)
        return self.durable(path, "wait_for_callback", lambda: ctx.wait_for_callback(submitter, name=path, config=cfg))

    def _invoke(self, st, ctx, path):
        cfg = None
        if st.get("tenant") is not None or st.get("timeout") or st.get("serdes") == "text":
            cfg = InvokeConfig(timeout=Duration(seconds=st.get("timeout", 0)), tenant_id=st.get("tenant"),
                               serdes_result=TextSerDes() if st.get("serdes") == "text" else None)
        payload = st.get("payload")
        return self.durable(path, "invoke", lambda: ctx.invoke(st["fn"], payload, name=path, config=cfg))

    # -- wait_for_condition ----------------------------------------------------------
    def _wfcond(self, st, ctx, path):
        run = self.run
        decisions = st["decisions"]  # list of ["continue", delay] | ["stop"]
        trans = st.get("trans", "append")
        init = from_tagged(st["init"])

        def next_state(s, attempt):
            if trans == "append":
                base = list(s) if isinstance(s, (list, tuple)) else [s]
                return base + [len(base)]
            if trans == "count":
                return (s if isinstance(s, int) else 0) + 1
            if trans == "same":
                return s
            if trans == "dict":
                d = dict(s) if isinstance(s, dict) else {}
                d[f"k{len(d)}"] = len(d)
                return d
            if trans == "inplace":
                if isinstance(s, dict):
                    s[f"k{len(s)}"] = len(s)
                    return s
                if isinstance(s, list):
                    s.append(len(s))
                    return s
                return s
            if trans == "seq":
                seq = st["seq"]
                i = self.world["entries"][path] - 1
                return from_tagged(seq[min(i, len(seq) - 1)])
            return s

        def check(state, cctx):
            key = self.enter_user(path, "check")
            try:
                n = self.world["entries"][path]
                snap = to_tagged(state)
                rec = {"path": path, "inv": run.inv, "clk": run.clock(), "state_in": snap, "n": n}
                run.polls.append(rec)
                recorded_poll_no = ((self.run.active_user.get(key) or {}).get("attempt") or 0) + 1
                rec["poll_no"] = recorded_poll_no
                if st.get("fail_at") == recorded_poll_no:
                    rec["failed"] = True
                    raise _uexc(USER_ERRORS[st.get("fail_err", "ValueError")]("check failed"))
                new = next_state(state, n)
                rec["state_out"] = to_tagged(new)
                return new
            finally:
                self.exit_user(key)

        until = st.get("until")

        def measure(x):
            return len(x) if isinstance(x, (list, dict, tuple)) else x if isinstance(x, int) else 0

        def strategy(state, attempt):
            if st.get("strat_fail_at") == attempt:
                # the user's wait strategy itself raises (e.g. "give up after n polls" implemented as an exception)
                raise _uexc(USER_ERRORS[st.get("fail_err", "ValueError")]("strategy gave up"))
            i = min(attempt - 1, len(decisions) - 1)
            d = decisions[i] if attempt - 1 < len(decisions) else ["stop"]
            if until is not None:
                # a purely state-based user strategy: polls until the accumulated state is large enough
                conts = [x for x in decisions if x[0] == "continue"] or [["continue", 1]]
                d = ["stop"] if measure(state) >= until else conts[measure(state) % len(conts)]
            run.strategy_calls.append({"path": path, "inv": run.inv, "clk": run.clock(), "attempts_made": attempt, "wfc": True,
                                       "state": to_tagged(state), "decision": d})
            if run.polls and run.polls[-1]["path"] == path:
                run.polls[-1]["attempt"] = attempt
                run.polls[-1]["decision"] = d
            if d[0] == "stop":
                return WaitForConditionDecision.stop_polling()
            if st.get("direct"):
                return WaitForConditionDecision(should_continue=True, delay=Duration(seconds=d[1]))
            return WaitForConditionDecision.continue_waiting(Duration(seconds=d[1]))

        if st.get("packaged"):
            p = st["packaged"]
            base = create_wait_strategy(WaitStrategyConfig(
                should_continue_polling=lambda s: (len(s) if isinstance(s, (list, dict)) else int(s or 0)) < p["until"],
                max_attempts=p["max_attempts"], initial_delay=Duration(seconds=p["initial"]), max_delay=Duration(seconds=p["max_delay"]),
                backoff_rate=p["rate"], jitter_strategy=JitterStrategy(p["jitter"])))

            def strategy(state, attempt):  # noqa: F811
                d = base(state, attempt)
                dec = ["continue", d.delay_seconds] if d.should_wait else ["stop"]
                run.strategy_calls.append({"path": path, "inv": run.inv, "clk": run.clock(), "attempts_made": attempt, "wfc": True,
                                           "state": to_tagged(state), "decision": dec})
                if run.polls and run.polls[-1]["path"] == path:
                    run.polls[-1]["attempt"] = attempt
                    run.polls[-1]["decision"] = dec
                if d.should_wait:
                    return WaitForConditionDecision.continue_waiting(d.delay)
                return WaitForConditionDecision.stop_polling()

        cfg = WaitForConditionConfig(wait_strategy=strategy, initial_state=init, serdes=self._serdes(st))
        return self.durable(path, "wfcond", lambda: ctx.wait_for_condition(check, cfg, name=path))

    # -- log / try -------------------------------------------------------------------
    def _emit_log(self, logger, tag, path, in_step=False):
        run = self.run
        run.log_calls.append({"tag": tag, "path": path, "inv": run.inv, "clk": run.clock(), "in_step": in_step})
        logger.info(tag)

    def _log(self, st, ctx, path):
        lg = ctx.logger
        self._emit_log(lg, st["tag"], path)
        return None

    def _try(self, st, ctx, path):
        classes = tuple({"CallableRuntimeError": sdk_exc.CallableRuntimeError, "CallbackError": sdk_exc.CallbackError,
                         "Exception": Exception, "ValueError": ValueError, "UserError": UserError,
                         "StepInterruptedError": sdk_exc.StepInterruptedError}[c] for c in st["catch"])
        try:
            return ["ok", self.stmt(st["body"], ctx, path + "/t")]
        except classes as e:
            if isinstance(e, sdk_exc.InvocationError) and "StepInterruptedError" not in st["catch"]:
                raise
            self.run.obs.append({"path": path, "kind": "try", "inv": self.run.inv, "clk": self.run.clock(), "out": "caught",
                                 "exc": type(e).__name__, "msg": str(e)})
            h = self.block(st.get("handler", []), ctx, path + "/h")
            return ["caught", type(e).__name__, str(e), h]


# ----------------------------------------------------------------------------- driver


def _chooser_for(case, inv):
    specs = case.get("sched") or [{"mode": "seq"}]
    spec = specs[min(inv, len(specs) - 1)]
    if spec.get("mode") == "linepreempt" and inv >= len(specs):
        spec = {"mode": "seq"}
    if spec.get("mode") in ("walk", "pct") and inv >= len(specs):
        spec = {**spec, "seed": spec.get("seed", 0) + inv}
    return D.make_chooser(spec)


def count_ops(prog) -> int:
    n = 0

    def walk(stmts):
        nonlocal n
        for st in stmts:
            n += 1
            if st["op"] == "step":
                r = st.get("retry") or {}
                n += (r.get("max", 0) or (r.get("cfg") or {}).get("max_attempts", 0))
            if st["op"] == "wfcond":
                n += len(st.get("decisions", ())) + 2 + ((st.get("packaged") or {}).get("max_attempts", 0)) + (st.get("until") or 0)
            for k in ("body", "between", "handler"):
                if isinstance(st.get(k), list):
                    walk(st[k])
            if isinstance(st.get("body"), dict):
                walk([st["body"]])
            for br in st.get("branches", ()):
                walk(br)
            if st["op"] == "map":
                n += len(st["items"]) * 2

    walk(prog["body"])
    return n


def run_execution(case: dict, *, max_invocations: int | None = None, hooks: dict | None = None) -> ExecResult:
    run = ExecResult()
    run.case = case
    backend = Backend(case.get("backend"), input_payload=case.get("input_payload", "{}"))
    run.backend = backend
    backend.on_update = lambda e: e.__setitem__("clk", run.clock())
    world: dict = {"entries": {}}
    run.world = world
    plan = case.get("plan") or {}
    bound = max_invocations or (8 + 3 * count_ops(case["prog"]) + len(plan.get("crashes", ())) + 2 * len(plan.get("faults", ())))
    run.bound = bound
    line_mods = [LINE_MODULES[m] for m in case.get("line", ()) if m in LINE_MODULES]
    if line_mods:
        D.enable_line_mode(line_mods)
    ext = {e["path"]: e for e in plan.get("external", ())}
    if case.get("ext_default"):
        class _D(dict):
            def get(self, k, d=None):
                return super().get(k) or {**_EXT_DEFAULT, **case["ext_default"]}

        ext = _D(ext)
    delivered_ext: set = set()
    real_logging = sdk_context.logging
    if case.get("caplog") == "default":
        sdk_context.logging = _LoggingShim(run, real_logging)
    warm: dict = {}
    consecutive_raises = 0
    orig_cc = sdk_state.ExecutionState.create_checkpoint

    def traced_cc(self_, operation_update=None, is_sync=True):  # noqa: FBT002
        t = D.current_task()
        rec = {"inv": run.inv, "clk": run.clock(), "sync": is_sync, "task": t.id if t else None,
               "upd": operation_update.to_dict() if operation_update is not None else None, "returned": False, "raised": None}
        run.handovers.append(rec)
        try:
            r = orig_cc(self_, operation_update, is_sync)
            rec["returned"] = True
            rec["ret_clk"] = run.clock()
            return r
        except BaseException as e:  # noqa: BLE001
            rec["raised"] = type(e).__name__
            rec["ret_clk"] = run.clock()
            raise

    sdk_state.ExecutionState.create_checkpoint = traced_cc
    import aws_durable_execution_sdk_python.execution as sdk_execution
    import aws_durable_execution_sdk_python.operation.child as sdk_child

    saved_limits = (sdk_child.CHECKPOINT_SIZE_LIMIT, sdk_execution.LAMBDA_RESPONSE_SIZE_LIMIT)
    lim = case.get("limits") or {}
    if lim.get("checkpoint"):
        sdk_child.CHECKPOINT_SIZE_LIMIT = lim["checkpoint"]
    if lim.get("response"):
        sdk_execution.LAMBDA_RESPONSE_SIZE_LIMIT = lim["response"]
    run.limits = {"checkpoint": sdk_child.CHECKPOINT_SIZE_LIMIT, "response": sdk_execution.LAMBDA_RESPONSE_SIZE_LIMIT}
    try:
        for inv in range(bound + 1):
            if inv == bound:
                run.v("C07", "too_many_invocations", "driver", f"execution did not reach a terminal status within {bound} invocations")
                break
            run.inv = inv
            if case.get("event_mutation") and backend.first_page == -1:
                backend.first_page = 0  # event mutations edit the EXECUTION operation of the invocation payload: keep it there
            event = backend.start_invocation()
            if case.get("event_mutation"):
                event = _mutate_event(event, case["event_mutation"])
            chooser = _chooser_for(case, inv)
            sched = D.Scheduler(chooser, time_cap=case.get("time_cap", 400.0), step_cap=case.get("step_cap", 300_000),
                                randoms=case.get("randoms", ()), start_time=backend.now)
            if isinstance(chooser, D.LinePreempt):
                sched.on_yield = chooser.on_yield
            sched.line_mode = bool(line_mods)
            sched.line_files = {m.__file__ for m in line_mods}
            sched.capture_dump = bool(case.get("capture_dump"))
            interp = Interp(case, run, backend, world)
            interp.sched = sched
            boto = FakeBoto(backend, sched, plan, inv, hooks=_mk_hooks(run, backend, ext, delivered_ext, hooks))
            interp.boto = boto
            boto.clock = run.clock
            # a warm sandbox: the decorated handler object (and whatever it keeps) lives on from one invocation to the
            # next; only after a process death (crash) a new one is built
            warm["interp"], warm["boto"] = interp, boto
            if warm.get("handler") is None or case.get("cold"):
                warm["handler"] = durable_execution(lambda ev, cx: warm["interp"].handler(ev, cx), boto3_client=_BotoProxy(warm))
            handler = warm["handler"]
            lam = LambdaCtx()
            try:
                n_hist = len(event["InitialExecutionState"]["Operations"])
            except Exception:  # noqa: BLE001 - deliberately malformed events (C18)
                n_hist = -1
            rec = {"inv": inv, "t0": backend.now, "n_hist": n_hist, "auto0": backend.auto_changes}
            run.invocations.append(rec)
            run.active_user = {}
            snap: dict = {}

            def on_root_done(s_, snap=snap):
                snap["active"] = [dict(v) for v in run.active_user.values()]
                snap["live"] = [t.name for t in s_.tasks if t.state != "done"]

            sched.on_root_done = on_root_done
            sched.run(lambda: handler(event, lam), watchdog_s=case.get("watchdog_s", 150.0))
            backend.now = max(backend.now, sched.now)
            for t_ in sched.tasks:
                if t_.exc is not None and D.is_harness_exc(t_.exc):
                    raise D.HarnessError(f"harness exception in task {t_.name}: {t_.exc!r}") from t_.exc
            if sched.root_exc is not None and D.is_harness_exc(sched.root_exc):
                raise D.HarnessError(f"harness exception reached the handler's caller: {sched.root_exc!r}") from sched.root_exc
            rec.update({"sched": sched.outcome, "steps": sched.step, "t1": backend.now, "trace": list(sched.trace), "api_calls": boto.n,
                        "calls_after_failure": boto.calls_after_failure, "failed_at": boto.failed_at,
                        "deadlock_info": sched.deadlock_info, "switches": sched.switches, "abort_dump": sched.abort_dump,
                        "line_yields": getattr(chooser, "total", None), "steps_since_time_moved": sched.step - sched.last_advance_step, "step_cap": sched.step_cap,
                        "task_excs": [(t.name, type(t.exc).__name__, str(t.exc)[:200]) for t in sched.tasks if t.exc is not None and t is not sched.root],
                        "live_after_return": [t.name for t in sched.tasks if getattr(t, "_live_at_root_end", False)]})
            rec["active_user_at_end"] = snap.get("active", [])
            rec["live_at_return"] = snap.get("live", [])
            if sched.outcome in ("deadlock", "time_cap", "step_cap"):
                rec["outcome"] = sched.outcome
                if sched.outcome != "step_cap":
                    break
                run.notes.append("step_cap")
                break
            if sched.outcome == "crashed":
                rec["outcome"] = "crashed"
                warm["handler"] = None  # the process died: the next invocation starts in a fresh sandbox
                continue
            if sched.root_exc is not None:
                rec["outcome"] = "raised"
                rec["raised"] = type(sched.root_exc).__name__
                rec["raised_msg"] = str(sched.root_exc)[:300]
                rec["raised_obj"] = sched.root_exc
                consecutive_raises += 1
                if consecutive_raises >= case.get("max_raises", 3):
                    run.final = {"status": "RAISED", "exc": rec["raised"], "msg": rec["raised_msg"]}
                    break
                continue
            consecutive_raises = 0
            out = sched.root_result
            rec["output"] = out
            status = out.get("Status") if isinstance(out, dict) else None
            rec["outcome"] = status or "malformed"
            if status in ("SUCCEEDED", "FAILED"):
                run.final = {"status": status, "result": out.get("Result"), "error": out.get("Error")}
                break
            if status == "PENDING":
                _check_park(run, backend, rec)
                # advance the world: deliver external events scheduled "between", then fire the next timer
                progressed = False
                for op in backend.outstanding_external():
                    p = op.get("_path")
                    e = ext.get(p) or _default_ext(op)
                    when = e.get("after_pending", 0)
                    key = op["Id"]
                    cnt = world.setdefault("pendings_seen", {})
                    cnt[key] = cnt.get(key, 0) + 1
                    if cnt[key] > when and key not in delivered_ext:
                        _deliver(backend, op, e)
                        delivered_ext.add(key)
                        progressed = True
                if not progressed and (backend.version > boto.last_version or backend.auto_changes > rec["auto0"]):
                    # a timer fired / an external party answered while the invocation was running (or after the
                    # SDK's last look): the service re-invokes at once
                    progressed = True
                if not progressed and backend.next_timer() is None:
                    # only external parties can move the execution on: time passes until one of them answers
                    outs = [op for op in backend.outstanding_external() if op["Id"] not in delivered_ext]
                    if outs:
                        op = outs[0]
                        _deliver(backend, op, ext.get(op.get("_path")) or _default_ext(op))
                        delivered_ext.add(op["Id"])
                        progressed = True
                if not progressed:
                    nt = backend.next_timer()
                    if nt is None:
                        run.v("C07", "pending_with_nothing_armed", "driver",
                              f"invocation {inv} returned PENDING but the backend holds no armed timer and awaits no external event; ops={_brief_ops(backend)}")
                        break
                    backend.fire_due(max(nt, backend.now))
                else:
                    backend.fire_due(backend.now)
                continue
            run.v("C18", "malformed_output", "wrapper", f"invocation {inv} returned {out!r}")
            break
    finally:
        sdk_context.logging = real_logging
        sdk_state.ExecutionState.create_checkpoint = orig_cc
        sdk_child.CHECKPOINT_SIZE_LIMIT, sdk_execution.LAMBDA_RESPONSE_SIZE_LIMIT = saved_limits
    return run


def _brief_ops(b: Backend):
    return [(o.get("_path"), o["Type"], o["Status"]) for o in b.ops.values()][:20]


_EXT_DEFAULT = {"outcome": "success", "payload": "ext-result", "after_pending": 0}


def _default_ext(op):
    return dict(_EXT_DEFAULT)


def _deliver(backend, op, e):
    oc = e.get("outcome", "success")
    if oc == "success":
        payload = e.get("payload", "ext-result")
        if op["Type"] == "CHAINED_INVOKE" and not e.get("raw"):
            payload = json.dumps(payload)
        backend.complete_external(op["Id"], "SUCCEEDED", result=None if e.get("no_payload") else payload)
    else:
        status = {"failure": "FAILED", "timeout": "TIMED_OUT", "heartbeat": "TIMED_OUT", "cancel": "CANCELLED", "stop": "STOPPED"}[oc]
        err = e.get("error", {"ErrorMessage": f"ext-{oc}", "ErrorType": "Ext" + oc.title()})
        if op["Type"] == "CHAINED_INVOKE" and status == "CANCELLED":
            status = "STOPPED"
        backend.complete_external(op["Id"], status, error=err if not e.get("no_error") else None)


def _mk_hooks(run, backend, ext, delivered_ext, user_hooks):
    def after_apply(boto, rec):
        # external parties that answer immediately (visible in the START response) or before the next API call
        for op in backend.outstanding_external():
            e = ext.get(op.get("_path"))
            if e and e.get("when") == "immediate" and op["Id"] not in delivered_ext:
                _deliver(backend, op, e)
                delivered_ext.add(op["Id"])
        if user_hooks and user_hooks.get("after_apply"):
            user_hooks["after_apply"](boto, rec)

    first_seen: dict = {}
    patience = run.case.get("ext_patience", 60.0) if hasattr(run, "case") else 60.0

    def before_api(boto, rec):
        # the premise of liveness: external parties always answer - also while an invocation is still running (a
        # workflow that keeps polling inside one invocation must not starve them): at the latest `patience` virtual
        # seconds after the operation was first seen outstanding
        now = boto.sched.now if boto.sched else backend.now
        for op in backend.outstanding_external():
            t0 = first_seen.setdefault(op["Id"], now)
            if now - t0 >= patience and op["Id"] not in delivered_ext:
                _deliver(backend, op, ext.get(op.get("_path")) or _default_ext(op))
                delivered_ext.add(op["Id"])
        for op in backend.outstanding_external():
            e = ext.get(op.get("_path"))
            if e and e.get("when") == "next_api" and op["Id"] not in delivered_ext and op.get("_created_inv") == run.inv:
                if any(a["kind"] == "checkpoint" and a.get("applied") and any(u.get("Id") == op["Id"] for u in a.get("updates", ())) for a in backend.api[:-1]):
                    _deliver(backend, op, e)
                    delivered_ext.add(op["Id"])
        if user_hooks and user_hooks.get("before_api"):
            user_hooks["before_api"](boto, rec)

    return {"after_apply": after_apply, "before_api": before_api}


def _mutate_event(event, m):
    import copy

    e = copy.deepcopy(event)
    k = m["kind"]
    if k == "drop_key":
        e.pop(m["key"], None)
    elif k == "not_dict":
        return m.get("value", "not a dict")
    elif k == "bad_ops":
        e["InitialExecutionState"]["Operations"] = m.get("value", "zzz")
    elif k == "input":
        e["InitialExecutionState"]["Operations"][0]["ExecutionDetails"]["InputPayload"] = m["value"]
    elif k == "none_state":
        e["InitialExecutionState"] = None
    return e


# ----------------------------------------------------------------------------- C07 park check


def _check_park(run: ExecResult, backend: Backend, rec: dict) -> None:
    """Soundness at a PENDING return: every suspended non-orphan position is parked on a wake source the backend
    holds as armed or already fired; no non-orphan user function that was already running when the last other
    branch finished/parked is still executing."""
    inv = rec["inv"]
    last_by_path: dict = {}
    for o in run.obs:
        if o["inv"] == inv:
            last_by_path[o["path"]] = o
    armed = 0
    for path, o in last_by_path.items():
        if o["out"] != "suspend":
            continue
        if o["kind"] in ("child", "parallel", "map", "wait_for_callback", "try"):
            continue  # composite: its leaves are checked
        op = backend.ops.get(backend.by_path.get(path.replace("#create", ""), ""))
        if op is None:
            run.v("C07", "suspended_without_record", o["kind"], f"{path}: suspended but the backend has no record of the operation")
            continue
        # orphan? (an ancestor context already completed)
        if any(backend.ops[a]["Status"] in TERMINAL for a in backend.ancestors(op["Id"])):
            continue
        st, typ = op["Status"], op["Type"]
        ok = (typ in ("WAIT", "CALLBACK", "CHAINED_INVOKE") and st == "STARTED") or (typ == "STEP" and st in ("PENDING", "READY")) or st in TERMINAL
        if not ok:
            run.v("C07", "suspended_on_unarmed_operation", f"{typ}:{st}", f"{path}: invocation returned PENDING while {typ} is {st}")
        else:
            armed += 1
    rec["armed"] = armed
    # user functions still executing at the PENDING return
    events = [o for o in run.obs if o["inv"] == inv and o["out"] in ("suspend", "value", "exc")]
    for a in rec.get("active_user_at_end", ()):
        if a["kind"] not in ("step", "check", "submitter"):
            continue
        if a.get("under_done"):
            continue
        others = [o for o in events if not o["path"].startswith(a["path"]) and not a["path"].startswith(o["path"])]
        if not others:
            continue
        last_other = max(o["clk"] for o in others)
        if a["clk"] < last_other:
            op = backend.ops.get(backend.by_path.get(a["path"], ""))
            if op is not None and any(backend.ops[x]["Status"] in TERMINAL for x in backend.ancestors(op["Id"])):
                continue
            run.v("C07", "pending_while_user_function_running", a["kind"],
                  f"{a['path']}: user function entered at clk {a['clk']} was still executing when the invocation returned PENDING (last other branch event at clk {last_other})")
